#!/bin/bash
# thorough_all.sh [seed] [ids...]: runs the thorough tier of every check in sequence (from the directory this script lives in), summary on stdout
cd "$(dirname "$0")/.."
SEED=${1:-1}; shift
IDS=${@:-$(seq -f "C%02g" 1 20)}
for p in $IDS; do
  s=$(date +%s)
  bin/check $p thorough --seed $SEED > thorough-$p.log 2>&1; rc=$?
  echo "$p seed=$SEED exit=$rc viol=$(grep -c '^VIOLATION' thorough-$p.log) known=$(grep -c '^KNOWN-FINDING' thorough-$p.log) secs=$(( $(date +%s) - s ))"
done
