#!/bin/bash
# confirm_seed.sh <Cxx> [src-dir] [out-name] [cargo feature args]: independently confirms a seeded change in a fresh scratch worktree:
#  suite passes with the change, the demonstration fails with it and passes without it.
# Writes /verif/seeded/<Cxx>/{patch.diff,seeded_demo.rs,meta.json(+confirmation)}.
set -u
ID=$1; SRC=${2:-/tmp/seed-out/$ID}; OUT=${3:-$ID}; FEAT=${4:-}
WT=/tmp/wt-confirm-$ID
git -C /repo worktree remove --force $WT 2>/dev/null
git -C /repo worktree add -q $WT HEAD || exit 2
cp /repo/Cargo.lock $WT/ 2>/dev/null
cd $WT
if ! git apply $SRC/patch.diff; then echo "patch does not apply"; exit 2; fi
mkdir -p tests; cp $SRC/seeded_demo.rs tests/seeded_demo.rs
export CARGO_NET_OFFLINE=true
cargo test --offline --lib > /tmp/confirm-$ID-suite.log 2>&1
SUITE=$(grep -E "^test result" /tmp/confirm-$ID-suite.log | head -1)
SUITE2="$SUITE"
if [ -n "$FEAT" ]; then cargo test --offline --lib $FEAT > /tmp/confirm-$ID-suite2.log 2>&1; SUITE2=$(grep -E "^test result" /tmp/confirm-$ID-suite2.log | head -1); fi
cargo test --offline --release $FEAT --test seeded_demo > /tmp/confirm-$ID-demo1.log 2>&1; D1=$?
git checkout -q -- src
cargo test --offline --release $FEAT --test seeded_demo > /tmp/confirm-$ID-demo2.log 2>&1; D2=$?
echo "suite: $SUITE"; echo "demo with change: exit $D1 (want != 0)"; echo "demo without change: exit $D2 (want 0)"
OK=false
if echo "$SUITE" | grep -q "120 passed; 0 failed" && echo "$SUITE2" | grep -qE "(120|117) passed; 0 failed" && [ $D1 -ne 0 ] && [ $D2 -eq 0 ]; then OK=true; fi
mkdir -p /verif/seeded/$OUT
cp $SRC/patch.diff $SRC/seeded_demo.rs /verif/seeded/$OUT/
python3 - <<PY
import json
m=json.load(open("$SRC/meta.json"))
m["confirmed_by_builder"]={"suite":"$SUITE","demo_with_change_exit":$D1,"demo_without_change_exit":$D2,"ok":"$OK"=="true","features":"$FEAT","suite_with_features":"$SUITE2",
  "commands":["git worktree add $WT HEAD; git apply patch.diff; cargo test --offline --lib; cargo test --offline --release $FEAT --test seeded_demo; git checkout -- src; cargo test --offline --release $FEAT --test seeded_demo"]}
json.dump(m,open("/verif/seeded/$OUT/meta.json","w"),indent=1)
PY
cd /; git -C /repo worktree remove --force $WT
echo "confirmed=$OK"
