#!/usr/bin/env python3
"""Development-time only (never run by a check): replaces the C02 `known` entries of known_findings.json by the sites
listed as violations in the given C02 evidence files, after the builder has reviewed each source line (all are
branch-free mask computations that rustc/LLVM compiles into a conditional jump).  usage: ct_known_update.py ev1.json ev2.json ..."""
import json, sys
ROOT = "/verif"
kf = json.load(open(f"{ROOT}/known_findings.json"))
sigs = {}
for f in sys.argv[1:]:
    for v in json.load(open(f))["coverage"]["violations"]:
        sigs.setdefault(v["signature"], set()).update(v.get("entries", []))
keep = [f for f in kf["findings"] if not (f["property"] == "C02" and f["status"] == "known")]
for s in sorted(sigs):
    _, cfg, kind, site = s.split(":", 3)
    keep.append({"property": "C02", "status": "known", "signature": s,
                 "what": f"constant-time violation in the machine code of configuration {cfg} (rustc 1.95.0 -O3): the branch-free masked computation at {site} is compiled into a conditional jump on secret data ({kind}); the source is branch-free",
                 "entries": sorted(sigs[s])})
kf["findings"] = keep
json.dump(kf, open(f"{ROOT}/known_findings.json", "w"), indent=1)
print(len(sigs), "C02 known sites")
