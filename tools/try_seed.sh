#!/bin/bash
# try_seed.sh <Cxx> <check-id> [extra check args]: applies /verif/seeded/<Cxx>/patch.diff to /repo, runs the check, undoes it.
set -u
ID=$1; CHK=$2; shift 2
cd /repo || exit 2
if [ -n "$(git status --porcelain -- src Cargo.toml)" ]; then echo "/repo is not clean"; exit 2; fi
git apply /verif/seeded/$ID/patch.diff || exit 2
( cd /verif && timeout 3600 bin/check $CHK quick "$@" > /tmp/try-$ID-$CHK.log 2>&1; echo "exit=$?" >> /tmp/try-$ID-$CHK.log )
git checkout -- src Cargo.toml
grep -E "^VIOLATION|^exit=" /tmp/try-$ID-$CHK.log | sed -n "1,3p;\$p"
