#!/bin/bash
# matrix.sh [seed-ids...]: for each seeded change, applies it to /repo, runs every check (quick tier, base configuration unless the
# change needs another one), records exit code and first violation signature in /verif/seeded/matrix/<seed>.json, undoes the change.
# Development-time tool; never part of a registered check.
set -u
cd /verif
mkdir -p seeded/matrix
SEEDS=${@:-$(ls seeded | grep -E '^C[0-9]+$')}
for S in $SEEDS; do
  if [ -n "$(git -C /repo status --porcelain -- src Cargo.toml)" ]; then echo "/repo is not clean"; exit 2; fi
  CFG=base
  grep -q gf255_m51 seeded/$S/patch.diff && CFG=base,m51
  grep -q "backend/w32" seeded/$S/patch.diff && CFG=base,w32
  git -C /repo apply /verif/seeded/$S/patch.diff || exit 2
  echo "{" > /tmp/matrix-$S.json
  for K in ${CHECKS:-$(seq -f "C%02g" 1 20)}; do
    ARGS="--configs $CFG"
    [ $K = C18 ] && [ $CFG = base ] && ARGS="--configs base,m51 --count 6000"
    timeout 3600 bin/check $K quick $ARGS > /tmp/matrix-$S-$K.log 2>&1; RC=$?
    SIG=$(grep -m1 "^VIOLATION" /tmp/matrix-$S-$K.log | sed 's/.*replay=//' | xargs -r -I{} python3 -c "import json,sys; print(json.load(open('{}')).get('signature','?'))" 2>/dev/null | head -1)
    N=$(grep -c "^VIOLATION" /tmp/matrix-$S-$K.log)
    echo "  \"$K\": {\"exit\": $RC, \"violations\": $N, \"first_signature\": \"$(echo $SIG | sed 's/["\\]/ /g' | cut -c1-160)\"}," >> /tmp/matrix-$S.json
    git clean -fdq replays/ ; git checkout -q -- evidence replays 2>/dev/null
    rm -f /tmp/matrix-$S-$K.log
  done
  echo "  \"_configs\": \"$CFG\"" >> /tmp/matrix-$S.json; echo "}" >> /tmp/matrix-$S.json
  git -C /repo checkout -- src Cargo.toml
  if [ -z "${CHECKS:-}" ]; then cp /tmp/matrix-$S.json seeded/matrix/$S.json; else cat /tmp/matrix-$S.json; fi
  echo "$S done: $(grep -c '"exit": 1' seeded/matrix/$S.json) checks fire"
done
