#!/usr/bin/env python3
"""Writes /verif/golden/hashes.txt from Python's hashlib (independent implementation: OpenSSL / CPython)."""
import hashlib, hmac, os
def msg(n): return bytes(((i * 7 + 3) ^ (i >> 3)) & 0xFF for i in range(n))
out = []
lens = list(range(0, 301)) + [511, 512, 513, 1023, 1024, 1025, 4096, 4097]
for name in ["sha224", "sha256", "sha384", "sha512", "sha512_224", "sha512_256", "sha3_224", "sha3_256", "sha3_384", "sha3_512"]:
    for n in lens:
        out.append(f"{name} {n} 0 0 {hashlib.new(name, msg(n)).hexdigest()}")
for name in ["shake_128", "shake_256"]:
    for n in lens:
        ol = [1, 32, 135, 136, 137, 167, 168, 169, 400][n % 9]
        out.append(f"{name} {n} {ol} 0 {hashlib.new(name, msg(n)).hexdigest(ol)}")
for n in lens:
    for (ol, kl) in [(32, 0), (1 + n % 32, 0), (32, 1 + n % 32), (1 + (n * 5) % 32, (n * 3) % 33), (16, 32), (20, 16)]:
        out.append(f"blake2s {n} {ol} {kl} {hashlib.blake2s(msg(n), digest_size=ol, key=msg(kl)[::-1]).hexdigest()}")
for n in range(0, 200, 3):
    for kl in [0, 1, 32, 63, 64, 65, 100]:
        out.append(f"hmac_sha256 {n} 0 {kl} {hmac.new(msg(kl)[::-1], msg(n), 'sha256').hexdigest()}")
open(os.path.join(os.path.dirname(os.path.dirname(os.path.abspath(__file__))), "golden", "hashes.txt"), "w").write("\n".join(out) + "\n")
print(len(out), "golden digests")
