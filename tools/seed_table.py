#!/usr/bin/env python3
"""Prints the markdown tables of DESIGN.md section 16 from /verif/seeded/*/meta.json and /verif/seeded/matrix/*.json."""
import json, os, glob, re
R = "/verif/seeded"
def short(s, n=150):
    s = re.sub(r"\s+", " ", s or "").strip()
    return s if len(s) <= n else s[:n - 1] + "…"
rows = []
for d in sorted(os.listdir(R)):
    if not re.match(r"^C\d\d(r\d[a-z]?)?$", d): continue
    m = json.load(open(f"{R}/{d}/meta.json"))
    caught = sorted(re.sub(r"caught_by_(C\d\d)\.json", r"\1", os.path.basename(f)) for f in glob.glob(f"{R}/{d}/caught_by_*.json"))
    rows.append((d, short(m.get("summary") or m.get("what") or "", 170), m.get("missed_first", "") + (": " + m["strengthening"] if m.get("strengthening") else ""), ", ".join(caught)))
print("| seed | change | first run of its own check | caught by (replay kept) |\n|---|---|---|---|")
for r in rows:
    print(f"| {r[0]} | {r[1]} | {r[2]} | {r[3]} |")
print()
ms = sorted(glob.glob(f"{R}/matrix/*.json"))
if ms:
    print("| seed \\ check | " + " | ".join(f"{i:02d}" for i in range(1, 21)) + " |\n|---|" + "---|" * 20)
    for f in ms:
        m = json.load(open(f))
        cells = []
        for i in range(1, 21):
            c = m.get(f"C{i:02d}", {})
            cells.append("X" if c.get("exit") == 1 else ("?" if c.get("exit") not in (0, 1) else "."))
        print(f"| {os.path.basename(f)[:-5]} | " + " | ".join(cells) + " |")
