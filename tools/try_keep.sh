#!/bin/bash
# try_keep.sh <seed-dir-name> <check-id> [args]: applies the seeded change to /repo, runs the check (quick), undoes the change,
# and keeps the first new replay as seeded/<seed>/caught_by_<check>.json and replays/<check>/seed_<seed>.json.
set -u
S=$1; K=$2; shift 2
cd /verif
before=$(ls replays/$K/ 2>/dev/null | sort)
tools/try_seed.sh $S $K "$@" > /tmp/tk-$S-$K.out 2>&1
RC=$(grep -E "^exit=" /tmp/tk-$S-$K.out | tail -1)
new=$(comm -13 <(echo "$before") <(ls replays/$K/ 2>/dev/null | sort))
first=$(echo "$new" | head -1)
if [ -n "$first" ]; then
  cp replays/$K/$first seeded/$S/caught_by_$K.json
  if [ $K != C02 ]; then cp replays/$K/$first replays/$K/seed_$S.json; fi
  for f in $new; do rm -f replays/$K/$f; done
fi
git checkout -q -- evidence 2>/dev/null
echo "$S x $K: $RC new_replays=$(echo "$new" | grep -c .)"
