#![no_main]
//! C19 fuzz target: bytes -> (target family, integer arguments, up to four byte-string arguments);
//! the oracle (no panic, status words in {0, 0xFFFFFFFF}) is the same executor as the proptest check.
use libfuzzer_sys::fuzz_target;
use vh::props::c19::{case_from_bytes, check_case};

fuzz_target!(|data: &[u8]| {
    if let Some(c) = case_from_bytes(data) {
        vh::engine::install_quiet_panic_hook_once();
        let o = check_case(&c);
        if let vh::engine::Verdict::Fail { sig, msg } = o.verdict {
            if !vh::engine::known_signature("C19", &sig) {
                eprintln!("VIOLATION-CANDIDATE {sig}: {msg}\nCASE {}", serde_json::to_string(&c).unwrap());
                std::process::abort();
            }
        }
    }
});
