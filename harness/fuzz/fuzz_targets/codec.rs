#![no_main]
//! C05 / C06 fuzz target: bytes -> (format selector, byte string) decoded by crrl and by the reference model.
use libfuzzer_sys::fuzz_target;
use vh::engine::{Property, Verdict};

fuzz_target!(|data: &[u8]| {
    if data.len() < 2 {
        return;
    }
    vh::engine::install_quiet_panic_hook_once();
    let form = data[1];
    let b = data[2..].to_vec();
    let sel = data[0] as usize;
    let (id, o) = if sel < 9 {
        let c = vh::props::c06::Case::Dec { g: sel as u8, b, form };
        ("C06", vh::props::c06::C06::new_cached().check(&c))
    } else {
        let p = vh::props::c05::C05::new_cached();
        let n = p.ntypes();
        let ty = (sel - 9) % (n + 1);
        let c = if ty == n { vh::props::c05::Case::Bin { b, form } } else { vh::props::c05::Case::Dec { ty: ty as u16, tyname: p.type_name(ty).to_string(), b, form } };
        ("C05", p.check(&c))
    };
    if let Verdict::Fail { sig, msg } = o.verdict {
        if !vh::engine::known_signature(id, &sig) {
            eprintln!("VIOLATION-CANDIDATE {sig}: {msg}\nDATA {:02x?}", data);
            std::process::abort();
        }
    }
});
