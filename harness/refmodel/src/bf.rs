//! Binary-field reference arithmetic: GF(2^127) = GF(2)[z]/(z^127+z^63+1) and
//! GF(2^254) = GF(2^127)[u]/(u^2+u+1).  Shift-and-xor only.

pub const MASK127: u128 = (1u128 << 127) - 1;

/// reduce a 128-bit polynomial (bit 127 may be set) to degree < 127
pub fn red127(a: u128) -> u128 {
    if a >> 127 != 0 {
        (a & MASK127) ^ (1u128 << 63) ^ 1
    } else {
        a
    }
}

/// reduce hi*z^128 + lo modulo z^127 + z^63 + 1 (z^128 = z^64 + z)
pub fn reduce256(mut hi: u128, mut lo: u128) -> u128 {
    while hi != 0 {
        let h = hi;
        hi = 0;
        lo ^= h << 64;
        hi ^= h >> 64;
        lo ^= h << 1;
        hi ^= h >> 127;
    }
    red127(lo)
}

/// carry-less product accumulated over 256 bits, then reduced (same result as `mul127_slow`)
pub fn mul127(a: u128, b: u128) -> u128 {
    let (mut hi, mut lo) = (0u128, 0u128);
    let mut b = b;
    let mut i = 0u32;
    while b != 0 {
        let tz = b.trailing_zeros();
        i += tz;
        b >>= tz;
        // add a << i
        lo ^= a << i;
        if i != 0 {
            hi ^= a >> (128 - i);
        }
        b >>= 1;
        i += 1;
        if i == 128 {
            break;
        }
    }
    reduce256(hi, lo)
}

fn spread64(x: u64) -> u128 {
    let mut v = x as u128;
    v = (v | (v << 32)) & 0x00000000FFFFFFFF00000000FFFFFFFF;
    v = (v | (v << 16)) & 0x0000FFFF0000FFFF0000FFFF0000FFFF;
    v = (v | (v << 8)) & 0x00FF00FF00FF00FF00FF00FF00FF00FF;
    v = (v | (v << 4)) & 0x0F0F0F0F0F0F0F0F0F0F0F0F0F0F0F0F;
    v = (v | (v << 2)) & 0x33333333333333333333333333333333;
    v = (v | (v << 1)) & 0x55555555555555555555555555555555;
    v
}

/// squaring by bit spreading (same result as mul127_slow(a, a))
pub fn sq127(a: u128) -> u128 {
    reduce256(spread64((a >> 64) as u64), spread64(a as u64))
}

/// definitional shift-and-xor product
pub fn mul127_slow(a: u128, b: u128) -> u128 {
    let mut a = red127(a);
    let mut b = red127(b);
    let mut r = 0u128;
    while b != 0 {
        if b & 1 != 0 {
            r ^= a;
        }
        b >>= 1;
        a <<= 1;
        a = red127(a);
    }
    r
}


pub fn pow127(a: u128, mut e: u128) -> u128 {
    let mut r = 1u128;
    let mut b = red127(a);
    while e != 0 {
        if e & 1 != 0 {
            r = mul127(r, b);
        }
        b = sq127(b);
        e >>= 1;
    }
    r
}

/// inverse (0 -> 0)
pub fn inv127(a: u128) -> u128 {
    pow127(a, (1u128 << 127) - 2)
}

pub fn sqrt127(a: u128) -> u128 {
    let mut x = red127(a);
    for _ in 0..126 {
        x = sq127(x);
    }
    x
}

/// trace over GF(2): sum of a^(2^i), i = 0..126
pub fn trace127(a: u128) -> u32 {
    let mut t = 0u128;
    let mut x = red127(a);
    for _ in 0..127 {
        t ^= x;
        x = sq127(x);
    }
    assert!(t == 0 || t == 1);
    t as u32
}

/// half-trace: H(a) = sum a^(4^i), i = 0..63 ; H(a)^2 + H(a) = a + Tr(a)
pub fn halftrace127(a: u128) -> u128 {
    let mut t = 0u128;
    let mut x = red127(a);
    for _ in 0..64 {
        t ^= x;
        x = sq127(sq127(x));
    }
    t
}

#[derive(Clone, Copy, PartialEq, Eq, Debug, Hash)]
pub struct F254(pub u128, pub u128);

impl F254 {
    pub const ZERO: F254 = F254(0, 0);
    pub const ONE: F254 = F254(1, 0);
    pub const U: F254 = F254(0, 1);
    pub fn norm(self) -> F254 {
        F254(red127(self.0), red127(self.1))
    }
    pub fn add(self, o: F254) -> F254 {
        F254(red127(self.0) ^ red127(o.0), red127(self.1) ^ red127(o.1))
    }
    pub fn mul(self, o: F254) -> F254 {
        let t = mul127(self.1, o.1);
        F254(mul127(self.0, o.0) ^ t, mul127(self.0, o.1) ^ mul127(self.1, o.0) ^ t)
    }
    /// (a0 + a1 u)^2 = (a0^2 + a1^2) + a1^2 u
    pub fn sq(self) -> F254 {
        let (s0, s1) = (sq127(self.0), sq127(self.1));
        F254(s0 ^ s1, s1)
    }
    pub fn sq_slow(self) -> F254 {
        self.mul(self)
    }
    pub fn is_zero(self) -> bool {
        self.norm() == F254::ZERO
    }
    pub fn pow2k(self, k: u32) -> F254 {
        let mut x = self.norm();
        for _ in 0..k {
            x = x.sq();
        }
        x
    }
    /// inverse through the norm to GF(2^127): a^-1 = conj(a) / (a * conj(a)), conj(a0 + a1 u) = (a0 + a1) + a1 u
    /// (same result as `inv_slow`; 0 -> 0)
    pub fn inv(self) -> F254 {
        let a = self.norm();
        let c = F254(a.0 ^ a.1, a.1);
        let n = a.mul(c);
        debug_assert!(n.1 == 0);
        let ni = inv127(n.0);
        F254(mul127(c.0, ni), mul127(c.1, ni))
    }
    /// inverse by a^(2^254 - 2) (0 -> 0)
    pub fn inv_slow(self) -> F254 {
        // a^(2^254-2) = prod_{i=1}^{253} a^(2^i)
        let mut r = F254::ONE;
        let mut x = self.norm();
        for _ in 1..254 {
            x = x.sq();
            r = r.mul(x);
        }
        r
    }
    pub fn sqrt(self) -> F254 {
        self.pow2k(253)
    }
    pub fn trace(self) -> u32 {
        let mut t = F254::ZERO;
        let mut x = self.norm();
        for _ in 0..254 {
            t = t.add(x);
            x = x.sq();
        }
        assert!(t == F254::ZERO || t == F254::ONE);
        t.0 as u32
    }
    /// some f with f^2 + f = a, when Tr(a) = 0 (generic formula with Tr(u) = 1)
    pub fn qsolve(self) -> F254 {
        let n = 254usize;
        let mut tp = Vec::with_capacity(n);
        tp.push(F254::U);
        for i in 1..n {
            let p: F254 = tp[i - 1];
            tp.push(p.sq());
        }
        let mut suffix = vec![F254::ZERO; n + 1];
        for j in (0..n).rev() {
            suffix[j] = suffix[j + 1].add(tp[j]);
        }
        let mut f = F254::ZERO;
        let mut x = self.norm();
        for i in 0..n - 1 {
            f = f.add(suffix[i + 1].mul(x));
            x = x.sq();
        }
        f
    }
    pub fn encode(self) -> [u8; 32] {
        let n = self.norm();
        let mut b = [0u8; 32];
        b[..16].copy_from_slice(&n.0.to_le_bytes());
        b[16..].copy_from_slice(&n.1.to_le_bytes());
        b
    }
    /// strict decode: 32 bytes, bit 127 of each half clear
    pub fn decode(b: &[u8]) -> Option<F254> {
        if b.len() != 32 || b[15] & 0x80 != 0 || b[31] & 0x80 != 0 {
            return None;
        }
        Some(F254(u128::from_le_bytes(b[..16].try_into().unwrap()), u128::from_le_bytes(b[16..].try_into().unwrap())))
    }
}
