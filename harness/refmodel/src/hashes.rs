//! One-shot reference hash functions (FIPS 180-4, FIPS 202, RFC 7693). No streaming state:
//! each function takes the complete message, so it cannot share a buffering bug with crrl.
//! Validated against Python hashlib goldens by the self test.

// ------------------------------------------------------------------ SHA-2 (32-bit)

const K256: [u32; 64] = [
    0x428a2f98, 0x71374491, 0xb5c0fbcf, 0xe9b5dba5, 0x3956c25b, 0x59f111f1, 0x923f82a4, 0xab1c5ed5, 0xd807aa98, 0x12835b01, 0x243185be, 0x550c7dc3, 0x72be5d74, 0x80deb1fe, 0x9bdc06a7, 0xc19bf174,
    0xe49b69c1, 0xefbe4786, 0x0fc19dc6, 0x240ca1cc, 0x2de92c6f, 0x4a7484aa, 0x5cb0a9dc, 0x76f988da, 0x983e5152, 0xa831c66d, 0xb00327c8, 0xbf597fc7, 0xc6e00bf3, 0xd5a79147, 0x06ca6351, 0x14292967,
    0x27b70a85, 0x2e1b2138, 0x4d2c6dfc, 0x53380d13, 0x650a7354, 0x766a0abb, 0x81c2c92e, 0x92722c85, 0xa2bfe8a1, 0xa81a664b, 0xc24b8b70, 0xc76c51a3, 0xd192e819, 0xd6990624, 0xf40e3585, 0x106aa070,
    0x19a4c116, 0x1e376c08, 0x2748774c, 0x34b0bcb5, 0x391c0cb3, 0x4ed8aa4a, 0x5b9cca4f, 0x682e6ff3, 0x748f82ee, 0x78a5636f, 0x84c87814, 0x8cc70208, 0x90befffa, 0xa4506ceb, 0xbef9a3f7, 0xc67178f2,
];

fn sha2_32(iv: [u32; 8], msg: &[u8], outlen: usize) -> Vec<u8> {
    let mut m = msg.to_vec();
    let bitlen = (msg.len() as u64).wrapping_mul(8);
    m.push(0x80);
    while m.len() % 64 != 56 {
        m.push(0);
    }
    m.extend_from_slice(&bitlen.to_be_bytes());
    let mut h = iv;
    for blk in m.chunks(64) {
        let mut w = [0u32; 64];
        for i in 0..16 {
            w[i] = u32::from_be_bytes(blk[4 * i..4 * i + 4].try_into().unwrap());
        }
        for i in 16..64 {
            let s0 = w[i - 15].rotate_right(7) ^ w[i - 15].rotate_right(18) ^ (w[i - 15] >> 3);
            let s1 = w[i - 2].rotate_right(17) ^ w[i - 2].rotate_right(19) ^ (w[i - 2] >> 10);
            w[i] = w[i - 16].wrapping_add(s0).wrapping_add(w[i - 7]).wrapping_add(s1);
        }
        let mut v = h;
        for i in 0..64 {
            let s1 = v[4].rotate_right(6) ^ v[4].rotate_right(11) ^ v[4].rotate_right(25);
            let ch = (v[4] & v[5]) ^ (!v[4] & v[6]);
            let t1 = v[7].wrapping_add(s1).wrapping_add(ch).wrapping_add(K256[i]).wrapping_add(w[i]);
            let s0 = v[0].rotate_right(2) ^ v[0].rotate_right(13) ^ v[0].rotate_right(22);
            let maj = (v[0] & v[1]) ^ (v[0] & v[2]) ^ (v[1] & v[2]);
            let t2 = s0.wrapping_add(maj);
            v = [t1.wrapping_add(t2), v[0], v[1], v[2], v[3].wrapping_add(t1), v[4], v[5], v[6]];
        }
        for i in 0..8 {
            h[i] = h[i].wrapping_add(v[i]);
        }
    }
    let mut out = Vec::new();
    for x in h {
        out.extend_from_slice(&x.to_be_bytes());
    }
    out.truncate(outlen);
    out
}

pub fn sha256(m: &[u8]) -> Vec<u8> {
    sha2_32([0x6a09e667, 0xbb67ae85, 0x3c6ef372, 0xa54ff53a, 0x510e527f, 0x9b05688c, 0x1f83d9ab, 0x5be0cd19], m, 32)
}
pub fn sha224(m: &[u8]) -> Vec<u8> {
    sha2_32([0xc1059ed8, 0x367cd507, 0x3070dd17, 0xf70e5939, 0xffc00b31, 0x68581511, 0x64f98fa7, 0xbefa4fa4], m, 28)
}

// ------------------------------------------------------------------ SHA-2 (64-bit)

const K512: [u64; 80] = [
    0x428a2f98d728ae22, 0x7137449123ef65cd, 0xb5c0fbcfec4d3b2f, 0xe9b5dba58189dbbc, 0x3956c25bf348b538, 0x59f111f1b605d019, 0x923f82a4af194f9b, 0xab1c5ed5da6d8118,
    0xd807aa98a3030242, 0x12835b0145706fbe, 0x243185be4ee4b28c, 0x550c7dc3d5ffb4e2, 0x72be5d74f27b896f, 0x80deb1fe3b1696b1, 0x9bdc06a725c71235, 0xc19bf174cf692694,
    0xe49b69c19ef14ad2, 0xefbe4786384f25e3, 0x0fc19dc68b8cd5b5, 0x240ca1cc77ac9c65, 0x2de92c6f592b0275, 0x4a7484aa6ea6e483, 0x5cb0a9dcbd41fbd4, 0x76f988da831153b5,
    0x983e5152ee66dfab, 0xa831c66d2db43210, 0xb00327c898fb213f, 0xbf597fc7beef0ee4, 0xc6e00bf33da88fc2, 0xd5a79147930aa725, 0x06ca6351e003826f, 0x142929670a0e6e70,
    0x27b70a8546d22ffc, 0x2e1b21385c26c926, 0x4d2c6dfc5ac42aed, 0x53380d139d95b3df, 0x650a73548baf63de, 0x766a0abb3c77b2a8, 0x81c2c92e47edaee6, 0x92722c851482353b,
    0xa2bfe8a14cf10364, 0xa81a664bbc423001, 0xc24b8b70d0f89791, 0xc76c51a30654be30, 0xd192e819d6ef5218, 0xd69906245565a910, 0xf40e35855771202a, 0x106aa07032bbd1b8,
    0x19a4c116b8d2d0c8, 0x1e376c085141ab53, 0x2748774cdf8eeb99, 0x34b0bcb5e19b48a8, 0x391c0cb3c5c95a63, 0x4ed8aa4ae3418acb, 0x5b9cca4f7763e373, 0x682e6ff3d6b2b8a3,
    0x748f82ee5defb2fc, 0x78a5636f43172f60, 0x84c87814a1f0ab72, 0x8cc702081a6439ec, 0x90befffa23631e28, 0xa4506cebde82bde9, 0xbef9a3f7b2c67915, 0xc67178f2e372532b,
    0xca273eceea26619c, 0xd186b8c721c0c207, 0xeada7dd6cde0eb1e, 0xf57d4f7fee6ed178, 0x06f067aa72176fba, 0x0a637dc5a2c898a6, 0x113f9804bef90dae, 0x1b710b35131c471b,
    0x28db77f523047d84, 0x32caab7b40c72493, 0x3c9ebe0a15c9bebc, 0x431d67c49c100d4c, 0x4cc5d4becb3e42b6, 0x597f299cfc657e2a, 0x5fcb6fab3ad6faec, 0x6c44198c4a475817,
];

fn sha2_64(iv: [u64; 8], msg: &[u8], outlen: usize) -> Vec<u8> {
    let mut m = msg.to_vec();
    let bitlen = (msg.len() as u128) * 8;
    m.push(0x80);
    while m.len() % 128 != 112 {
        m.push(0);
    }
    m.extend_from_slice(&bitlen.to_be_bytes());
    let mut h = iv;
    for blk in m.chunks(128) {
        let mut w = [0u64; 80];
        for i in 0..16 {
            w[i] = u64::from_be_bytes(blk[8 * i..8 * i + 8].try_into().unwrap());
        }
        for i in 16..80 {
            let s0 = w[i - 15].rotate_right(1) ^ w[i - 15].rotate_right(8) ^ (w[i - 15] >> 7);
            let s1 = w[i - 2].rotate_right(19) ^ w[i - 2].rotate_right(61) ^ (w[i - 2] >> 6);
            w[i] = w[i - 16].wrapping_add(s0).wrapping_add(w[i - 7]).wrapping_add(s1);
        }
        let mut v = h;
        for i in 0..80 {
            let s1 = v[4].rotate_right(14) ^ v[4].rotate_right(18) ^ v[4].rotate_right(41);
            let ch = (v[4] & v[5]) ^ (!v[4] & v[6]);
            let t1 = v[7].wrapping_add(s1).wrapping_add(ch).wrapping_add(K512[i]).wrapping_add(w[i]);
            let s0 = v[0].rotate_right(28) ^ v[0].rotate_right(34) ^ v[0].rotate_right(39);
            let maj = (v[0] & v[1]) ^ (v[0] & v[2]) ^ (v[1] & v[2]);
            let t2 = s0.wrapping_add(maj);
            v = [t1.wrapping_add(t2), v[0], v[1], v[2], v[3].wrapping_add(t1), v[4], v[5], v[6]];
        }
        for i in 0..8 {
            h[i] = h[i].wrapping_add(v[i]);
        }
    }
    let mut out = Vec::new();
    for x in h {
        out.extend_from_slice(&x.to_be_bytes());
    }
    out.truncate(outlen);
    out
}

pub fn sha512(m: &[u8]) -> Vec<u8> {
    sha2_64([0x6a09e667f3bcc908, 0xbb67ae8584caa73b, 0x3c6ef372fe94f82b, 0xa54ff53a5f1d36f1, 0x510e527fade682d1, 0x9b05688c2b3e6c1f, 0x1f83d9abfb41bd6b, 0x5be0cd19137e2179], m, 64)
}
pub fn sha384(m: &[u8]) -> Vec<u8> {
    sha2_64([0xcbbb9d5dc1059ed8, 0x629a292a367cd507, 0x9159015a3070dd17, 0x152fecd8f70e5939, 0x67332667ffc00b31, 0x8eb44a8768581511, 0xdb0c2e0d64f98fa7, 0x47b5481dbefa4fa4], m, 48)
}
const SHA512_IV: [u64; 8] = [0x6a09e667f3bcc908, 0xbb67ae8584caa73b, 0x3c6ef372fe94f82b, 0xa54ff53a5f1d36f1, 0x510e527fade682d1, 0x9b05688c2b3e6c1f, 0x1f83d9abfb41bd6b, 0x5be0cd19137e2179];

/// SHA-512/t IV generation function (FIPS 180-4 section 5.3.6)
fn sha512_t_iv(t: u32) -> [u64; 8] {
    let mut iv0 = SHA512_IV;
    for x in iv0.iter_mut() {
        *x ^= 0xa5a5a5a5a5a5a5a5;
    }
    let d = sha2_64(iv0, format!("SHA-512/{t}").as_bytes(), 64);
    let mut iv = [0u64; 8];
    for i in 0..8 {
        iv[i] = u64::from_be_bytes(d[8 * i..8 * i + 8].try_into().unwrap());
    }
    iv
}
pub fn sha512_224(m: &[u8]) -> Vec<u8> {
    sha2_64(sha512_t_iv(224), m, 28)
}
pub fn sha512_256(m: &[u8]) -> Vec<u8> {
    sha2_64(sha512_t_iv(256), m, 32)
}

// ------------------------------------------------------------------ Keccak (FIPS 202)

fn keccak_f(a: &mut [u64; 25]) {
    const RC: [u64; 24] = [
        0x0000000000000001, 0x0000000000008082, 0x800000000000808a, 0x8000000080008000, 0x000000000000808b, 0x0000000080000001, 0x8000000080008081, 0x8000000000008009,
        0x000000000000008a, 0x0000000000000088, 0x0000000080008009, 0x000000008000000a, 0x000000008000808b, 0x800000000000008b, 0x8000000000008089, 0x8000000000008003,
        0x8000000000008002, 0x8000000000000080, 0x000000000000800a, 0x800000008000000a, 0x8000000080008081, 0x8000000000008080, 0x0000000080000001, 0x8000000080008008,
    ];
    // rotation offsets r[x][y], lane index = x + 5*y
    const ROT: [[u32; 5]; 5] = [[0, 36, 3, 41, 18], [1, 44, 10, 45, 2], [62, 6, 43, 15, 61], [28, 55, 25, 21, 56], [27, 20, 39, 8, 14]];
    for rc in RC {
        // theta
        let mut c = [0u64; 5];
        for x in 0..5 {
            c[x] = a[x] ^ a[x + 5] ^ a[x + 10] ^ a[x + 15] ^ a[x + 20];
        }
        for x in 0..5 {
            let d = c[(x + 4) % 5] ^ c[(x + 1) % 5].rotate_left(1);
            for y in 0..5 {
                a[x + 5 * y] ^= d;
            }
        }
        // rho + pi
        let mut b = [0u64; 25];
        for x in 0..5 {
            for y in 0..5 {
                b[y + 5 * ((2 * x + 3 * y) % 5)] = a[x + 5 * y].rotate_left(ROT[x][y]);
            }
        }
        // chi
        for x in 0..5 {
            for y in 0..5 {
                a[x + 5 * y] = b[x + 5 * y] ^ (!b[(x + 1) % 5 + 5 * y] & b[(x + 2) % 5 + 5 * y]);
            }
        }
        // iota
        a[0] ^= rc;
    }
}

/// sponge with the given rate (bytes), domain suffix byte, output length
pub fn keccak(rate: usize, suffix: u8, msg: &[u8], outlen: usize) -> Vec<u8> {
    let mut m = msg.to_vec();
    // pad10*1 with the domain bits
    m.push(suffix);
    while m.len() % rate != 0 {
        m.push(0);
    }
    let l = m.len();
    m[l - 1] |= 0x80;
    let mut a = [0u64; 25];
    for blk in m.chunks(rate) {
        for i in 0..rate / 8 {
            a[i] ^= u64::from_le_bytes(blk[8 * i..8 * i + 8].try_into().unwrap());
        }
        keccak_f(&mut a);
    }
    let mut out = Vec::new();
    loop {
        for i in 0..rate / 8 {
            out.extend_from_slice(&a[i].to_le_bytes());
            if out.len() >= outlen {
                out.truncate(outlen);
                return out;
            }
        }
        if out.len() >= outlen {
            out.truncate(outlen);
            return out;
        }
        keccak_f(&mut a);
    }
}

pub fn sha3_224(m: &[u8]) -> Vec<u8> {
    keccak(144, 0x06, m, 28)
}
pub fn sha3_256(m: &[u8]) -> Vec<u8> {
    keccak(136, 0x06, m, 32)
}
pub fn sha3_384(m: &[u8]) -> Vec<u8> {
    keccak(104, 0x06, m, 48)
}
pub fn sha3_512(m: &[u8]) -> Vec<u8> {
    keccak(72, 0x06, m, 64)
}
pub fn shake128(m: &[u8], outlen: usize) -> Vec<u8> {
    keccak(168, 0x1F, m, outlen)
}
pub fn shake256(m: &[u8], outlen: usize) -> Vec<u8> {
    keccak(136, 0x1F, m, outlen)
}

// ------------------------------------------------------------------ BLAKE2s (RFC 7693)

const B2S_IV: [u32; 8] = [0x6A09E667, 0xBB67AE85, 0x3C6EF372, 0xA54FF53A, 0x510E527F, 0x9B05688C, 0x1F83D9AB, 0x5BE0CD19];
const SIGMA: [[usize; 16]; 10] = [
    [0, 1, 2, 3, 4, 5, 6, 7, 8, 9, 10, 11, 12, 13, 14, 15],
    [14, 10, 4, 8, 9, 15, 13, 6, 1, 12, 0, 2, 11, 7, 5, 3],
    [11, 8, 12, 0, 5, 2, 15, 13, 10, 14, 3, 6, 7, 1, 9, 4],
    [7, 9, 3, 1, 13, 12, 11, 14, 2, 6, 5, 10, 4, 0, 15, 8],
    [9, 0, 5, 7, 2, 4, 10, 15, 14, 1, 11, 12, 6, 8, 3, 13],
    [2, 12, 6, 10, 0, 11, 8, 3, 4, 13, 7, 5, 15, 14, 1, 9],
    [12, 5, 1, 15, 14, 13, 4, 10, 0, 7, 6, 3, 9, 2, 8, 11],
    [13, 11, 7, 14, 12, 1, 3, 9, 5, 0, 15, 4, 8, 6, 2, 10],
    [6, 15, 14, 9, 11, 3, 0, 8, 12, 2, 13, 7, 1, 4, 10, 5],
    [10, 2, 8, 4, 7, 6, 1, 5, 15, 11, 9, 14, 3, 12, 13, 0],
];

fn b2s_compress(h: &mut [u32; 8], blk: &[u8], t: u64, last: bool) {
    let mut m = [0u32; 16];
    for i in 0..16 {
        m[i] = u32::from_le_bytes(blk[4 * i..4 * i + 4].try_into().unwrap());
    }
    let mut v = [0u32; 16];
    v[..8].copy_from_slice(h);
    v[8..].copy_from_slice(&B2S_IV);
    v[12] ^= t as u32;
    v[13] ^= (t >> 32) as u32;
    if last {
        v[14] = !v[14];
    }
    let g = |v: &mut [u32; 16], a: usize, b: usize, c: usize, d: usize, x: u32, y: u32| {
        v[a] = v[a].wrapping_add(v[b]).wrapping_add(x);
        v[d] = (v[d] ^ v[a]).rotate_right(16);
        v[c] = v[c].wrapping_add(v[d]);
        v[b] = (v[b] ^ v[c]).rotate_right(12);
        v[a] = v[a].wrapping_add(v[b]).wrapping_add(y);
        v[d] = (v[d] ^ v[a]).rotate_right(8);
        v[c] = v[c].wrapping_add(v[d]);
        v[b] = (v[b] ^ v[c]).rotate_right(7);
    };
    for r in 0..10 {
        let s = &SIGMA[r];
        g(&mut v, 0, 4, 8, 12, m[s[0]], m[s[1]]);
        g(&mut v, 1, 5, 9, 13, m[s[2]], m[s[3]]);
        g(&mut v, 2, 6, 10, 14, m[s[4]], m[s[5]]);
        g(&mut v, 3, 7, 11, 15, m[s[6]], m[s[7]]);
        g(&mut v, 0, 5, 10, 15, m[s[8]], m[s[9]]);
        g(&mut v, 1, 6, 11, 12, m[s[10]], m[s[11]]);
        g(&mut v, 2, 7, 8, 13, m[s[12]], m[s[13]]);
        g(&mut v, 3, 4, 9, 14, m[s[14]], m[s[15]]);
    }
    for i in 0..8 {
        h[i] ^= v[i] ^ v[i + 8];
    }
}

/// BLAKE2s with optional key (0..=32 bytes) and output length 1..=32
pub fn blake2s(outlen: usize, key: &[u8], msg: &[u8]) -> Vec<u8> {
    assert!((1..=32).contains(&outlen) && key.len() <= 32);
    let mut h = B2S_IV;
    h[0] ^= 0x01010000 ^ ((key.len() as u32) << 8) ^ outlen as u32;
    let mut data = Vec::new();
    if !key.is_empty() {
        data.extend_from_slice(key);
        data.resize(64, 0);
    }
    data.extend_from_slice(msg);
    if data.is_empty() {
        data.resize(64, 0);
        b2s_compress(&mut h, &data, 0, true);
    } else {
        let total = data.len();
        let nblocks = (total + 63) / 64;
        data.resize(nblocks * 64, 0);
        for i in 0..nblocks {
            let last = i == nblocks - 1;
            let t = if last { total as u64 } else { ((i + 1) * 64) as u64 };
            b2s_compress(&mut h, &data[64 * i..64 * i + 64], t, last);
        }
    }
    let mut out = Vec::new();
    for x in h {
        out.extend_from_slice(&x.to_le_bytes());
    }
    out.truncate(outlen);
    out
}

// ------------------------------------------------------------------ HMAC-SHA-256 (RFC 2104)

pub fn hmac_sha256(key: &[u8], msg: &[u8]) -> Vec<u8> {
    let mut k = if key.len() > 64 { sha256(key) } else { key.to_vec() };
    k.resize(64, 0);
    let mut inner: Vec<u8> = k.iter().map(|b| b ^ 0x36).collect();
    inner.extend_from_slice(msg);
    let ih = sha256(&inner);
    let mut outer: Vec<u8> = k.iter().map(|b| b ^ 0x5c).collect();
    outer.extend_from_slice(&ih);
    sha256(&outer)
}
