//! Reference signature / key-exchange schemes: RFC 8032 (Ed25519, Ed448 and their ctx / ph variants),
//! ECDSA verification + RFC 6979 / the documented secp256k1 nonce, the jq255e / jq255s / GLS254 Schnorr
//! schemes and ECDH as documented in the crrl modules, RFC 7748 X25519 / X448.

use crate::curves::{self, Edwards, Pt, RefGroup, Weierstrass};
use crate::hashes as h;
use crate::pf::{self, from_be, from_le, to_be, to_le};
use num_bigint::BigUint;
use num_traits::{One, Zero};

// ------------------------------------------------------------------ EdDSA

#[derive(Clone, Copy, PartialEq, Eq, Debug)]
pub enum EdVariant {
    /// PureEdDSA (Ed25519: no dom prefix; Ed448: dom4(0, ""))
    Raw,
    /// context variant (Ed25519ctx: dom2(0, ctx); Ed448: dom4(0, ctx))
    Ctx,
    /// pre-hashed variant: the caller supplies the hashed message (dom2(1, ctx) / dom4(1, ctx))
    Ph,
}

pub struct EdDsa {
    pub curve: Edwards,
    pub is448: bool,
}

pub fn eddsa25519() -> EdDsa {
    EdDsa { curve: curves::ed25519(), is448: false }
}
pub fn eddsa448() -> EdDsa {
    EdDsa { curve: curves::ed448(), is448: true }
}

impl EdDsa {
    pub fn sig_len(&self) -> usize {
        if self.is448 { 114 } else { 64 }
    }
    pub fn key_len(&self) -> usize {
        if self.is448 { 57 } else { 32 }
    }
    fn hash(&self, parts: &[&[u8]]) -> Vec<u8> {
        let mut m = Vec::new();
        for p in parts {
            m.extend_from_slice(p);
        }
        if self.is448 { h::shake256(&m, 114) } else { h::sha512(&m) }
    }
    pub fn dom(&self, v: EdVariant, ctx: &[u8]) -> Vec<u8> {
        assert!(ctx.len() <= 255);
        let f = if v == EdVariant::Ph { 1u8 } else { 0u8 };
        if self.is448 {
            let mut d = b"SigEd448".to_vec();
            d.push(f);
            d.push(ctx.len() as u8);
            d.extend_from_slice(ctx);
            d
        } else if v == EdVariant::Raw {
            Vec::new()
        } else {
            let mut d = b"SigEd25519 no Ed25519 collisions".to_vec();
            d.push(f);
            d.push(ctx.len() as u8);
            d.extend_from_slice(ctx);
            d
        }
    }
    /// (secret scalar a, prefix, encoded public key) from the seed
    pub fn expand(&self, seed: &[u8]) -> (BigUint, Vec<u8>, Vec<u8>) {
        let l = self.key_len();
        assert!(seed.len() == l);
        let hv = self.hash(&[seed]);
        let mut a = hv[..l].to_vec();
        if self.is448 {
            a[0] &= 0xFC;
            a[55] |= 0x80;
            a[56] = 0;
        } else {
            a[0] &= 0xF8;
            a[31] &= 0x7F;
            a[31] |= 0x40;
        }
        let s = from_le(&a);
        let prefix = hv[l..2 * l].to_vec();
        let pk = self.curve.encode(&self.curve.mul(&s, &self.curve.base()));
        (s, prefix, pk)
    }
    pub fn sign(&self, seed: &[u8], v: EdVariant, ctx: &[u8], m: &[u8]) -> Vec<u8> {
        let (a, prefix, pk) = self.expand(seed);
        let n = &self.curve.order;
        let dom = self.dom(v, ctx);
        let r = from_le(&self.hash(&[&dom, &prefix, m])) % n;
        let rr = self.curve.encode(&self.curve.mul(&r, &self.curve.base()));
        let k = from_le(&self.hash(&[&dom, &rr, &pk, m])) % n;
        let s = (r + k * a) % n;
        let mut sig = rr;
        sig.extend(to_le(&s, self.key_len()));
        sig
    }
    /// strict cofactored verification; returns (verdict, reason)
    pub fn verify(&self, pk: &[u8], sig: &[u8], v: EdVariant, ctx: &[u8], m: &[u8]) -> (bool, &'static str) {
        let l = self.key_len();
        let Some(a) = self.curve.decode(pk) else { return (false, "bad_public_key") };
        if sig.len() != 2 * l {
            return (false, "bad_length");
        }
        let Some(r) = self.curve.decode(&sig[..l]) else { return (false, "bad_R") };
        let s = from_le(&sig[l..]);
        if s >= self.curve.order {
            return (false, "S_not_canonical");
        }
        let dom = self.dom(v, ctx);
        let k = from_le(&self.hash(&[&dom, &sig[..l], pk, m])) % &self.curve.order;
        let c = &self.curve;
        let t = c.sub(&c.sub(&c.mul(&s, &c.base()), &r), &c.mul(&k, &a));
        let ct = c.mul(&BigUint::from(c.cofactor), &t);
        if ct == c.neutral() { (true, "valid") } else { (false, "equation") }
    }
}

// ------------------------------------------------------------------ ECDSA

pub struct Ecdsa {
    pub curve: Weierstrass,
    pub rfc6979: bool,
}

pub fn ecdsa_p256() -> Ecdsa {
    Ecdsa { curve: curves::p256(), rfc6979: true }
}
pub fn ecdsa_secp256k1() -> Ecdsa {
    Ecdsa { curve: curves::secp256k1(), rfc6979: false }
}

impl Ecdsa {
    /// h = big-endian integer of the first 32 bytes of hv (all of it if shorter), mod n
    pub fn h_of(&self, hv: &[u8]) -> BigUint {
        let t = if hv.len() > 32 { &hv[..32] } else { hv };
        from_be(t) % &self.curve.order
    }
    pub fn public(&self, d: &BigUint) -> Pt {
        self.curve.mul(d, &self.curve.base())
    }
    /// split a signature of even length into (r, s) per the property; None when malformed
    pub fn split_sig(&self, sig: &[u8]) -> Option<(BigUint, BigUint)> {
        if sig.len() % 2 != 0 {
            return None;
        }
        let rl = sig.len() / 2;
        let (rb, sb) = (&sig[..rl], &sig[rl..]);
        if rl > 32 && (rb[..rl - 32].iter().any(|&x| x != 0) || sb[..rl - 32].iter().any(|&x| x != 0)) {
            return None;
        }
        Some((from_be(rb), from_be(sb)))
    }
    pub fn verify(&self, q: &Pt, sig: &[u8], hv: &[u8]) -> (bool, &'static str) {
        let n = &self.curve.order;
        let Some((r, s)) = self.split_sig(sig) else { return (false, "malformed") };
        if r.is_zero() || &r >= n || s.is_zero() || &s >= n {
            return (false, "range");
        }
        let hh = self.h_of(hv);
        let w = pf::inv(&s, n);
        let u1 = pf::mul(&hh, &w, n);
        let u2 = pf::mul(&r, &w, n);
        let c = &self.curve;
        let p = c.add(&c.mul(&u1, &c.base()), &c.mul(&u2, q));
        match p {
            Pt::A(x, _) => {
                if x % n == r { (true, "valid") } else { (false, "equation") }
            }
            _ => (false, "infinity"),
        }
    }
    /// the documented nonce: RFC 6979 HMAC-SHA-256 (extra appended as additional input in both keying steps)
    /// for P-256; SHA-512(le key || le h || extra) mod n, 0 -> 1, for secp256k1. Returns the sequence of
    /// candidate nonces (first one is used unless r or s is zero).
    pub fn nonce(&self, d: &BigUint, hv: &[u8], extra: &[u8]) -> BigUint {
        let n = &self.curve.order;
        let hh = self.h_of(hv);
        if self.rfc6979 {
            let xb = to_be(d, 32);
            let hb = to_be(&hh, 32);
            let mut v = vec![1u8; 32];
            let mut k = vec![0u8; 32];
            let cat = |v: &[u8], sep: u8| {
                let mut m = v.to_vec();
                m.push(sep);
                m.extend_from_slice(&xb);
                m.extend_from_slice(&hb);
                m.extend_from_slice(extra);
                m
            };
            k = h::hmac_sha256(&k, &cat(&v, 0));
            v = h::hmac_sha256(&k, &v);
            k = h::hmac_sha256(&k, &cat(&v, 1));
            v = h::hmac_sha256(&k, &v);
            loop {
                v = h::hmac_sha256(&k, &v);
                let cand = from_be(&v);
                if !cand.is_zero() && &cand < n {
                    return cand;
                }
                let mut m = v.clone();
                m.push(0);
                k = h::hmac_sha256(&k, &m);
                v = h::hmac_sha256(&k, &v);
            }
        } else {
            let mut m = to_le(d, 32);
            m.extend(to_le(&hh, 32));
            m.extend_from_slice(extra);
            let k = from_le(&h::sha512(&m)) % n;
            if k.is_zero() { BigUint::one() } else { k }
        }
    }
    /// signature (r || s, big-endian 32 bytes each) with the documented nonce; None in the (never observed)
    /// retry case, which the caller treats as "not comparable"
    pub fn sign(&self, d: &BigUint, hv: &[u8], extra: &[u8]) -> Option<Vec<u8>> {
        let n = &self.curve.order;
        let k = self.nonce(d, hv, extra);
        let Pt::A(x, _) = self.curve.mul(&k, &self.curve.base()) else { return None };
        let r = x % n;
        let s = pf::mul(&pf::add(&self.h_of(hv), &pf::mul(d, &r, n), n), &pf::inv(&k, n), n);
        if r.is_zero() || s.is_zero() {
            return None;
        }
        let mut sig = to_be(&r, 32);
        sig.extend(to_be(&s, 32));
        Some(sig)
    }
}

// ------------------------------------------------------------------ jq255e / jq255s / GLS254 Schnorr + ECDH

pub struct Schnorr {
    pub group: Box<dyn RefGroup>,
    /// GLS254: c' = c0 + c1*mu (mu = even square root of -1 mod r); otherwise c' = the 128-bit integer
    pub gls: bool,
}

pub fn schnorr_jq255e() -> Schnorr {
    Schnorr { group: Box::new(curves::jq255e()), gls: false }
}
pub fn schnorr_jq255s() -> Schnorr {
    Schnorr { group: Box::new(curves::jq255s()), gls: false }
}
pub fn schnorr_gls254() -> Schnorr {
    Schnorr { group: Box::new(curves::gls254()), gls: true }
}

impl Schnorr {
    pub fn mu(&self) -> BigUint {
        let n = self.group.order();
        let mut m = pf::sqrt_any(&(&n - 1u32), &n).unwrap();
        if m.bit(0) {
            m = &n - m;
        }
        m
    }
    pub fn challenge_scalar(&self, c: &[u8]) -> BigUint {
        let n = self.group.order();
        if self.gls {
            (from_le(&c[..8]) + from_le(&c[8..16]) * self.mu()) % n
        } else {
            from_le(&c[..16]) % n
        }
    }
    pub fn challenge(&self, r_enc: &[u8], pk: &[u8], hash_name: &str, data: &[u8]) -> Vec<u8> {
        let mut m = r_enc.to_vec();
        m.extend_from_slice(pk);
        if hash_name.is_empty() {
            m.push(0x52);
        } else {
            m.push(0x48);
            m.extend_from_slice(hash_name.as_bytes());
            m.push(0);
        }
        m.extend_from_slice(data);
        h::blake2s(32, &[], &m)[..16].to_vec()
    }
    pub fn verify(&self, pk: &[u8], sig: &[u8], hash_name: &str, data: &[u8]) -> (bool, &'static str) {
        let g = &*self.group;
        let Some(q) = g.decode(pk) else { return (false, "bad_public_key") };
        if sig.len() != 48 {
            return (false, "bad_length");
        }
        let s = from_le(&sig[16..]);
        if s >= g.order() {
            return (false, "s_not_canonical");
        }
        let c = self.challenge_scalar(&sig[..16]);
        let r = g.sub(&g.mul(&s, &g.base()), &g.mul(&c, &q));
        if self.challenge(&g.encode(&r), pk, hash_name, data) == sig[..16] { (true, "valid") } else { (false, "challenge") }
    }
    /// ECDH key derivation as documented in the modules (success case and failure case)
    pub fn ecdh(&self, sk: &BigUint, own_pk: &[u8], peer: &[u8]) -> (Vec<u8>, bool) {
        let g = &*self.group;
        let q = if peer.len() == 32 { g.decode(peer) } else { None };
        let ok = matches!(&q, Some(p) if !g.is_neutral(p));
        let shared = if ok { g.encode(&g.mul(sk, q.as_ref().unwrap())) } else { to_le(sk, 32) };
        (self.ecdh_kdf(own_pk, peer, if ok { 0x53 } else { 0x46 }, &shared), ok)
    }
    /// the key derivation step alone: BLAKE2s(ordered public keys || tag || shared)
    pub fn ecdh_kdf(&self, own_pk: &[u8], peer: &[u8], tag: u8, shared: &[u8]) -> Vec<u8> {
        let mut m = Vec::new();
        if peer.len() == 32 {
            // lexicographic order of the byte strings, lowest first
            if own_pk < peer {
                m.extend_from_slice(own_pk);
                m.extend_from_slice(peer);
            } else {
                m.extend_from_slice(peer);
                m.extend_from_slice(own_pk);
            }
        } else {
            m.extend_from_slice(own_pk);
            m.extend_from_slice(peer);
        }
        m.push(tag);
        m.extend_from_slice(shared);
        h::blake2s(32, &[], &m)
    }
}

// ------------------------------------------------------------------ X25519 / X448 (RFC 7748)

pub fn x_ladder(p: &BigUint, a24: u32, bits: u64, k: &BigUint, u: &BigUint) -> BigUint {
    let x1 = u % p;
    let (mut x2, mut z2, mut x3, mut z3) = (BigUint::one(), BigUint::zero(), x1.clone(), BigUint::one());
    let mut swap = false;
    for t in (0..bits).rev() {
        let kt = k.bit(t);
        if swap != kt {
            std::mem::swap(&mut x2, &mut x3);
            std::mem::swap(&mut z2, &mut z3);
        }
        swap = kt;
        let a = pf::add(&x2, &z2, p);
        let aa = pf::mul(&a, &a, p);
        let b = pf::sub(&x2, &z2, p);
        let bb = pf::mul(&b, &b, p);
        let e = pf::sub(&aa, &bb, p);
        let c = pf::add(&x3, &z3, p);
        let d = pf::sub(&x3, &z3, p);
        let da = pf::mul(&d, &a, p);
        let cb = pf::mul(&c, &b, p);
        let t1 = pf::add(&da, &cb, p);
        x3 = pf::mul(&t1, &t1, p);
        let t2 = pf::sub(&da, &cb, p);
        z3 = pf::mul(&x1, &pf::mul(&t2, &t2, p), p);
        x2 = pf::mul(&aa, &bb, p);
        z2 = pf::mul(&e, &pf::add(&aa, &pf::mul(&BigUint::from(a24), &e, p), p), p);
    }
    if swap {
        std::mem::swap(&mut x2, &mut x3);
        std::mem::swap(&mut z2, &mut z3);
    }
    pf::mul(&x2, &pf::inv_fermat(&z2, p), p)
}

pub fn x25519(scalar: &[u8], u: &[u8]) -> Vec<u8> {
    assert!(scalar.len() == 32 && u.len() == 32);
    let p = (BigUint::one() << 255) - 19u32;
    let mut k = scalar.to_vec();
    k[0] &= 248;
    k[31] &= 127;
    k[31] |= 64;
    let mut ub = u.to_vec();
    ub[31] &= 0x7F;
    to_le(&x_ladder(&p, 121665, 255, &from_le(&k), &from_le(&ub)), 32)
}

pub fn x448(scalar: &[u8], u: &[u8]) -> Vec<u8> {
    assert!(scalar.len() == 56 && u.len() == 56);
    let p = (BigUint::one() << 448) - (BigUint::one() << 224) - 1u32;
    let mut k = scalar.to_vec();
    k[0] &= 252;
    k[55] |= 128;
    to_le(&x_ladder(&p, 39081, 448, &from_le(&k), &from_le(u)), 56)
}
