//! Prime-field reference arithmetic on big integers (no code shared with crrl).

use num_bigint::{BigInt, BigUint, Sign};
use num_integer::Integer;
use num_traits::{One, Zero};

pub fn bu(x: u64) -> BigUint {
    BigUint::from(x)
}

pub fn from_limbs_le(l: &[u64]) -> BigUint {
    let mut b = Vec::with_capacity(8 * l.len());
    for w in l {
        b.extend_from_slice(&w.to_le_bytes());
    }
    BigUint::from_bytes_le(&b)
}

pub fn from_le(b: &[u8]) -> BigUint {
    BigUint::from_bytes_le(b)
}

pub fn from_be(b: &[u8]) -> BigUint {
    BigUint::from_bytes_be(b)
}

pub fn from_hex(s: &str) -> BigUint {
    BigUint::parse_bytes(s.replace(['_', ' '], "").as_bytes(), 16).expect("bad hex")
}

/// Fixed-length little-endian encoding (panics if it does not fit).
pub fn to_le(x: &BigUint, len: usize) -> Vec<u8> {
    let mut v = x.to_bytes_le();
    if v.len() == 1 && v[0] == 0 {
        v.clear();
    }
    assert!(v.len() <= len, "value does not fit in {len} bytes");
    v.resize(len, 0);
    v
}

pub fn to_be(x: &BigUint, len: usize) -> Vec<u8> {
    let mut v = to_le(x, len);
    v.reverse();
    v
}

pub fn to_limbs_le(x: &BigUint, n: usize) -> Vec<u64> {
    let b = to_le(x, 8 * n);
    (0..n).map(|i| u64::from_le_bytes(b[8 * i..8 * i + 8].try_into().unwrap())).collect()
}

pub fn modp(x: &BigInt, p: &BigUint) -> BigUint {
    let pi = BigInt::from(p.clone());
    let r = x.mod_floor(&pi);
    r.to_biguint().unwrap()
}

pub fn int(x: &BigUint) -> BigInt {
    BigInt::from_biguint(Sign::Plus, x.clone())
}

pub fn add(a: &BigUint, b: &BigUint, p: &BigUint) -> BigUint {
    (a + b) % p
}
pub fn sub(a: &BigUint, b: &BigUint, p: &BigUint) -> BigUint {
    ((a % p) + p - (b % p)) % p
}
pub fn neg(a: &BigUint, p: &BigUint) -> BigUint {
    (p - (a % p)) % p
}
pub fn mul(a: &BigUint, b: &BigUint, p: &BigUint) -> BigUint {
    (a * b) % p
}
pub fn pow(a: &BigUint, e: &BigUint, p: &BigUint) -> BigUint {
    a.modpow(e, p)
}
/// Inverse modulo a prime p; inverse of 0 is 0. Uses the extended Euclidean algorithm of num-bigint
/// (`inv_fermat` is the definitional version, cross-checked against this one by the self test).
pub fn inv(a: &BigUint, p: &BigUint) -> BigUint {
    let a = a % p;
    if a.is_zero() {
        return BigUint::zero();
    }
    a.modinv(p).expect("modulus must be prime")
}
/// Inverse by Fermat (p prime); inverse of 0 is 0.
pub fn inv_fermat(a: &BigUint, p: &BigUint) -> BigUint {
    a.modpow(&(p - 2u32), p)
}
/// Modular inverse by extended Euclid (any modulus); None when not invertible.
pub fn inv_euclid(a: &BigUint, m: &BigUint) -> Option<BigUint> {
    let (mut r0, mut r1) = (int(m), int(&(a % m)));
    let (mut t0, mut t1) = (BigInt::zero(), BigInt::one());
    while !r1.is_zero() {
        let q = &r0 / &r1;
        let r2 = &r0 - &q * &r1;
        r0 = r1;
        r1 = r2;
        let t2 = &t0 - &q * &t1;
        t0 = t1;
        t1 = t2;
    }
    if r0 != BigInt::one() {
        return None;
    }
    Some(modp(&t0, m))
}
pub fn div(a: &BigUint, b: &BigUint, p: &BigUint) -> BigUint {
    mul(a, &inv(b, p), p)
}
pub fn half(a: &BigUint, p: &BigUint) -> BigUint {
    let h = (p + 1u32) >> 1;
    mul(a, &h, p)
}
/// Legendre symbol by Euler's criterion (p an odd prime).
pub fn legendre(a: &BigUint, p: &BigUint) -> i32 {
    let a = a % p;
    if a.is_zero() {
        return 0;
    }
    let e = (p - 1u32) >> 1;
    if a.modpow(&e, p).is_one() {
        1
    } else {
        -1
    }
}
/// Jacobi symbol (any odd modulus) - used for non-prime harness moduli and as a
/// cross-check of `legendre`.
pub fn jacobi(a: &BigUint, n: &BigUint) -> i32 {
    let mut a = a % n;
    let mut n = n.clone();
    let mut t = 1i32;
    while !a.is_zero() {
        while a.is_even() {
            a >>= 1;
            let r = (&n % 8u32).to_u32_digits();
            let r = if r.is_empty() { 0 } else { r[0] };
            if r == 3 || r == 5 {
                t = -t;
            }
        }
        std::mem::swap(&mut a, &mut n);
        let ra = (&a % 4u32).to_u32_digits();
        let rn = (&n % 4u32).to_u32_digits();
        if ra.first() == Some(&3) && rn.first() == Some(&3) {
            t = -t;
        }
        a %= &n;
    }
    if n.is_one() {
        t
    } else {
        0
    }
}
/// Tonelli-Shanks: some square root of a modulo the odd prime p, or None.
pub fn sqrt_any(a: &BigUint, p: &BigUint) -> Option<BigUint> {
    let a = a % p;
    if a.is_zero() {
        return Some(BigUint::zero());
    }
    if legendre(&a, p) != 1 {
        return None;
    }
    let three = bu(3);
    if (p % 4u32) == three {
        let r = a.modpow(&((p + 1u32) >> 2), p);
        return Some(r);
    }
    let mut q = p - 1u32;
    let mut s = 0u32;
    while q.is_even() {
        q >>= 1;
        s += 1;
    }
    let mut z = bu(2);
    while legendre(&z, p) != -1 {
        z += 1u32;
    }
    let mut m = s;
    let mut c = z.modpow(&q, p);
    let mut t = a.modpow(&q, p);
    let mut r = a.modpow(&((&q + 1u32) >> 1), p);
    while !t.is_one() {
        let mut i = 0u32;
        let mut t2 = t.clone();
        while !t2.is_one() {
            t2 = (&t2 * &t2) % p;
            i += 1;
        }
        let b = c.modpow(&(BigUint::one() << (m - i - 1)), p);
        m = i;
        c = (&b * &b) % p;
        t = (&t * &c) % p;
        r = (&r * &b) % p;
    }
    Some(r)
}
/// The square root whose least significant bit is zero ("non-negative" root).
pub fn sqrt_even(a: &BigUint, p: &BigUint) -> Option<BigUint> {
    sqrt_any(a, p).map(|r| if r.bit(0) { p - r } else { r })
}

/// value of a signed i128 modulo p
pub fn from_i128(x: i128, p: &BigUint) -> BigUint {
    modp(&BigInt::from(x), p)
}

pub fn is_probable_prime(n: &BigUint) -> bool {
    if n < &bu(2) {
        return false;
    }
    for sp in [2u32, 3, 5, 7, 11, 13, 17, 19, 23, 29, 31, 37] {
        if n == &bu(sp as u64) {
            return true;
        }
        if (n % sp).is_zero() {
            return false;
        }
    }
    let mut d = n - 1u32;
    let mut s = 0;
    while d.is_even() {
        d >>= 1;
        s += 1;
    }
    'outer: for a in [2u32, 3, 5, 7, 11, 13, 17, 19, 23, 29, 31, 37, 41, 43, 47, 53] {
        let mut x = bu(a as u64).modpow(&d, n);
        if x.is_one() || x == n - 1u32 {
            continue;
        }
        for _ in 0..s - 1 {
            x = (&x * &x) % n;
            if x == n - 1u32 {
                continue 'outer;
            }
        }
        return false;
    }
    true
}
