//! Reference LMS / LM-OTS (RFC 8554, with the SHA-256/192 and SHAKE256 parameter sets of
//! draft-fluhrer-lms-more-parm-sets / NIST SP 800-208), w = 8, h = 5.

use crate::hashes as hh;

#[derive(Clone, Copy, Debug, PartialEq, Eq)]
pub struct Params {
    pub n: usize,
    pub m: usize,
    pub w: usize,
    pub h: usize,
    pub lms_type: u32,
    pub ots_type: u32,
    pub shake: bool,
}

pub const PARAMS: [Params; 4] = [
    Params { n: 32, m: 32, w: 8, h: 5, lms_type: 0x05, ots_type: 0x04, shake: false },
    Params { n: 24, m: 24, w: 8, h: 5, lms_type: 0x0a, ots_type: 0x08, shake: false },
    Params { n: 24, m: 24, w: 8, h: 5, lms_type: 0x14, ots_type: 0x10, shake: true },
    Params { n: 32, m: 32, w: 8, h: 5, lms_type: 0x0f, ots_type: 0x0c, shake: true },
];

const D_PBLC: [u8; 2] = [0x80, 0x80];
const D_MESG: [u8; 2] = [0x81, 0x81];
const D_LEAF: [u8; 2] = [0x82, 0x82];
const D_INTR: [u8; 2] = [0x83, 0x83];

impl Params {
    fn hash(&self, parts: &[&[u8]], outlen: usize) -> Vec<u8> {
        let mut msg = Vec::new();
        for p in parts {
            msg.extend_from_slice(p);
        }
        if self.shake { hh::shake256(&msg, outlen) } else { hh::sha256(&msg)[..outlen].to_vec() }
    }
    /// (p, ls) of RFC 8554 section 4.1 / appendix B
    pub fn p_ls(&self) -> (usize, usize) {
        let u = (8 * self.n + self.w - 1) / self.w;
        let max = ((1usize << self.w) - 1) * u;
        let lg = (usize::BITS - max.leading_zeros()) as usize; // floor(lg(max)) + 1
        let v = (lg + self.w - 1) / self.w;
        (u + v, 16 - v * self.w)
    }
    pub fn ots_siglen(&self) -> usize {
        4 + self.n * (self.p_ls().0 + 1)
    }
    pub fn siglen(&self) -> usize {
        4 + self.ots_siglen() + 4 + self.h * self.m
    }
    fn coef(&self, s: &[u8], i: usize) -> usize {
        // w = 8 in every supported set; general formula of RFC 8554 section 3.1.3
        let w = self.w;
        ((s[(i * w) / 8] >> (8 - (w * (i % (8 / w)) + w))) as usize) & ((1 << w) - 1)
    }
    fn cksm(&self, q: &[u8]) -> u16 {
        let mut sum = 0u32;
        for i in 0..(self.n * 8 / self.w) {
            sum += ((1u32 << self.w) - 1) - self.coef(q, i) as u32;
        }
        (sum << self.p_ls().1) as u16
    }
    fn ots_x(&self, id: &[u8], seed: &[u8], q: u32, i: usize) -> Vec<u8> {
        self.hash(&[id, &q.to_be_bytes(), &(i as u16).to_be_bytes(), &[0xFF], seed], self.n)
    }
    fn chain(&self, id: &[u8], q: u32, i: usize, from: usize, to: usize, start: &[u8]) -> Vec<u8> {
        let mut tmp = start.to_vec();
        for j in from..to {
            tmp = self.hash(&[id, &q.to_be_bytes(), &(i as u16).to_be_bytes(), &[j as u8], &tmp], self.n);
        }
        tmp
    }
    fn ots_public(&self, id: &[u8], seed: &[u8], q: u32) -> Vec<u8> {
        let (p, _) = self.p_ls();
        let mut parts: Vec<Vec<u8>> = Vec::new();
        for i in 0..p {
            let x = self.ots_x(id, seed, q, i);
            parts.push(self.chain(id, q, i, 0, (1 << self.w) - 1, &x));
        }
        let mut refs: Vec<&[u8]> = vec![id];
        let qb = q.to_be_bytes();
        refs.push(&qb);
        refs.push(&D_PBLC);
        for y in &parts {
            refs.push(y);
        }
        self.hash(&refs, self.n)
    }
    /// all tree nodes T[1..2^(h+1)) (index 0 unused)
    pub fn tree(&self, id: &[u8], seed: &[u8]) -> Vec<Vec<u8>> {
        let leaves = 1usize << self.h;
        let mut t = vec![Vec::new(); 2 * leaves];
        for q in 0..leaves {
            let r = (leaves + q) as u32;
            let k = self.ots_public(id, seed, q as u32);
            t[r as usize] = self.hash(&[id, &r.to_be_bytes(), &D_LEAF, &k], self.m);
        }
        for r in (1..leaves).rev() {
            t[r] = self.hash(&[id, &(r as u32).to_be_bytes(), &D_INTR, &t[2 * r].clone(), &t[2 * r + 1].clone()], self.m);
        }
        t
    }
    /// the signature for leaf q with randomizer c
    pub fn sign(&self, id: &[u8], seed: &[u8], tree: &[Vec<u8>], q: u32, c: &[u8], msg: &[u8]) -> Vec<u8> {
        let (p, _) = self.p_ls();
        let mut sig = q.to_be_bytes().to_vec();
        sig.extend_from_slice(&self.ots_type.to_be_bytes());
        sig.extend_from_slice(c);
        let qq = self.hash(&[id, &q.to_be_bytes(), &D_MESG, c, msg], self.n);
        let mut qck = qq.clone();
        qck.extend_from_slice(&self.cksm(&qq).to_be_bytes());
        for i in 0..p {
            let a = self.coef(&qck, i);
            let x = self.ots_x(id, seed, q, i);
            sig.extend(self.chain(id, q, i, 0, a, &x));
        }
        sig.extend_from_slice(&self.lms_type.to_be_bytes());
        let mut r = (1usize << self.h) + q as usize;
        for _ in 0..self.h {
            sig.extend_from_slice(&tree[r ^ 1]);
            r >>= 1;
        }
        sig
    }
    /// RFC 8554 algorithm 6a (with 4b for the LM-OTS candidate)
    pub fn verify(&self, id: &[u8], t1: &[u8], sig: &[u8], msg: &[u8]) -> bool {
        let (p, _) = self.p_ls();
        if sig.len() != self.siglen() {
            return false;
        }
        let q = u32::from_be_bytes(sig[0..4].try_into().unwrap());
        if q as usize >= (1usize << self.h) {
            return false;
        }
        let ots = &sig[4..4 + self.ots_siglen()];
        if u32::from_be_bytes(ots[0..4].try_into().unwrap()) != self.ots_type {
            return false;
        }
        let off = 4 + self.ots_siglen();
        if u32::from_be_bytes(sig[off..off + 4].try_into().unwrap()) != self.lms_type {
            return false;
        }
        let c = &ots[4..4 + self.n];
        let qq = self.hash(&[id, &q.to_be_bytes(), &D_MESG, c, msg], self.n);
        let mut qck = qq.clone();
        qck.extend_from_slice(&self.cksm(&qq).to_be_bytes());
        let mut z: Vec<Vec<u8>> = Vec::new();
        for i in 0..p {
            let a = self.coef(&qck, i);
            let y = &ots[4 + self.n * (i + 1)..4 + self.n * (i + 2)];
            z.push(self.chain(id, q, i, a, (1 << self.w) - 1, y));
        }
        let qb = q.to_be_bytes();
        let mut refs: Vec<&[u8]> = vec![id, &qb, &D_PBLC];
        for y in &z {
            refs.push(y);
        }
        let kc = self.hash(&refs, self.n);
        let mut r = (1usize << self.h) + q as usize;
        let mut tmp = self.hash(&[id, &(r as u32).to_be_bytes(), &D_LEAF, &kc], self.m);
        let path = &sig[off + 4..];
        for i in 0..self.h {
            let node = &path[i * self.m..(i + 1) * self.m];
            let odd = r & 1 == 1;
            r >>= 1;
            tmp = if odd {
                self.hash(&[id, &(r as u32).to_be_bytes(), &D_INTR, node, &tmp], self.m)
            } else {
                self.hash(&[id, &(r as u32).to_be_bytes(), &D_INTR, &tmp, node], self.m)
            };
        }
        tmp == t1
    }
}
