pub fn x() {}
