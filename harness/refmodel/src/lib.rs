//! Independent reference model for crrl (big integers, affine formulas, one-shot hashes).
//! Depends on num-bigint only; shares no code with crrl.
pub mod bf;
pub mod curves;
pub mod hashes;
pub mod lms;
pub mod pf;
pub mod schemes;

pub fn unhex(s: &str) -> Vec<u8> {
    let s = s.as_bytes();
    (0..s.len() / 2)
        .map(|i| {
            let h = |c: u8| match c {
                b'0'..=b'9' => c - b'0',
                b'a'..=b'f' => c - b'a' + 10,
                b'A'..=b'F' => c - b'A' + 10,
                _ => panic!("bad hex"),
            };
            h(s[2 * i]) * 16 + h(s[2 * i + 1])
        })
        .collect()
}

pub fn hex(b: &[u8]) -> String {
    b.iter().map(|x| format!("{:02x}", x)).collect()
}
