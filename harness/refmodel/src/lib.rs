//! Independent reference model for crrl (big integers, affine formulas, one-shot hashes).
//! Depends on num-bigint only; shares no code with crrl.
pub mod bf;
pub mod pf;
