pub mod binfield;
pub mod engine;
pub mod fieldapi;
pub mod ftypes;
pub mod gen;
pub mod points;
pub mod props;
pub mod selftest;

/// additional self tests registered by later modules (curve constants, hash goldens)
pub fn selftest_extra() -> Vec<String> {
    Vec::new()
}
