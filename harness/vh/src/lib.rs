pub mod binfield;
pub mod engine;
pub mod fieldapi;
pub mod ftypes;
pub mod gen;
pub mod props;
