pub mod binfield;
pub mod ct;
pub mod engine;
pub mod fieldapi;
pub mod ftypes;
pub mod gen;
pub mod points;
pub mod props;
pub mod selftest;
pub mod transcript;

/// additional self tests: fast reference routines against their definitional versions, curve constants
/// against what crrl publishes
pub fn selftest_extra() -> Vec<String> {
    use refmodel::bf::{self, F254};
    use refmodel::pf;
    let mut errs = Vec::new();
    let mut st = 0x1234_5678_9ABC_DEF0u64;
    let mut next = || {
        st ^= st << 13;
        st ^= st >> 7;
        st ^= st << 17;
        st
    };
    let mut r128 = || ((next() as u128) << 64) | next() as u128;
    for i in 0..400 {
        let (a, b) = (r128(), if i % 7 == 0 { 0 } else { r128() });
        if bf::mul127(a, b) != bf::mul127_slow(a, b) {
            errs.push(format!("refmodel mul127 fast != slow for {a:x} {b:x}"));
        }
        if bf::sq127(a) != bf::mul127_slow(a, a) {
            errs.push(format!("refmodel sq127 fast != slow for {a:x}"));
        }
        let x = F254(a, b);
        if x.sq() != x.sq_slow() {
            errs.push("refmodel F254 sq fast != slow".into());
        }
        if i < 20 && x.inv() != x.inv_slow() {
            errs.push("refmodel F254 inv fast != slow".into());
        }
    }
    for g in 0..points::NGROUPS {
        let r = points::rg(g);
        let n = r.order();
        if !pf::is_probable_prime(&n) {
            errs.push(format!("{}: group order not prime", r.name()));
        }
        if !r.is_neutral(&r.mul(&n, &r.base())) || r.is_neutral(&r.base()) {
            errs.push(format!("{}: [order]B != neutral in the reference model", r.name()));
        }
    }
    {
        use points::Grp;
        macro_rules! chk {
            ($P:ty) => {{
                let g = <$P as Grp>::G;
                let r = points::rg(g);
                if <$P as Grp>::encode(<$P as Grp>::base()) != r.encode(&r.base()) {
                    errs.push(format!("{}: BASE encoding differs between crrl and the reference model", r.name()));
                }
                if <$P as Grp>::encode(<$P as Grp>::neutral()) != r.encode(&r.neutral()) {
                    errs.push(format!("{}: NEUTRAL encoding differs between crrl and the reference model", r.name()));
                }
                if <<$P as Grp>::S as fieldapi::PF>::modulus() != r.order() {
                    errs.push(format!("{}: scalar modulus differs from the reference group order", r.name()));
                }
            }};
        }
        chk!(crrl::ed25519::Point);
        chk!(crrl::ed448::Point);
        chk!(crrl::p256::Point);
        chk!(crrl::secp256k1::Point);
        chk!(crrl::jq255e::Point);
        chk!(crrl::jq255s::Point);
        chk!(crrl::gls254::Point);
        chk!(crrl::ristretto255::Point);
        chk!(crrl::decaf448::Point);
    }
    // projective scalar multiplication of the reference against its affine definition
    {
        use refmodel::curves::RefGroup;
        let rf = points::refs();
        for (e, tors) in [(&rf.ed25519, &rf.torsion[0]), (&rf.ed448, &rf.torsion[1])] {
            let mut pts = vec![e.base(), e.neutral()];
            pts.extend(tors.iter().cloned());
            pts.push(e.add(&e.base(), &tors[tors.len() - 1]));
            for (i, pt) in pts.iter().enumerate() {
                let k = (num_bigint::BigUint::from(r128()) * num_bigint::BigUint::from(r128()) + (i as u32)) % e.order();
                for kk in [k, num_bigint::BigUint::from(i as u32), e.order(), e.order() - 1u32] {
                    if e.mul_ext(&kk, pt) != e.mul_affine(&kk, pt) {
                        errs.push(format!("{}: reference mul_ext != affine double-and-add", e.name));
                    }
                }
            }
        }
        for w in [&rf.p256, &rf.secp256k1] {
            let b = w.base();
            let pts = vec![b.clone(), w.double(&b), w.neg(&b), refmodel::curves::Pt::Inf];
            for (i, pt) in pts.iter().enumerate() {
                let k = (num_bigint::BigUint::from(r128()) * num_bigint::BigUint::from(r128())) % w.order();
                for kk in [k, num_bigint::BigUint::from(i as u32), num_bigint::BigUint::from(2u32), w.order(), w.order() - 1u32, w.order() + 1u32] {
                    if w.mul_jac(&kk, pt) != w.mul_affine(&kk, pt) {
                        errs.push(format!("{}: reference mul_jac != affine double-and-add", w.name));
                    }
                }
            }
        }
    }
    // reference hash functions against hashlib goldens
    {
        use refmodel::hashes as h;
        let root = std::env::var("VERIF_ROOT").unwrap_or_else(|_| "/verif".into());
        let msg = |n: usize| -> Vec<u8> { (0..n).map(|i| (((i * 7 + 3) ^ (i >> 3)) & 0xFF) as u8).collect() };
        match std::fs::read_to_string(format!("{root}/golden/hashes.txt")) {
            Err(e) => errs.push(format!("cannot read golden/hashes.txt: {e}")),
            Ok(txt) => {
                let mut n_ok = 0;
                for line in txt.lines() {
                    let f: Vec<&str> = line.split(' ').collect();
                    if f.len() != 5 { continue; }
                    let (n, ol, kl): (usize, usize, usize) = (f[1].parse().unwrap(), f[2].parse().unwrap(), f[3].parse().unwrap());
                    let m = msg(n);
                    let mut key = msg(kl);
                    key.reverse();
                    let d = match f[0] {
                        "sha224" => h::sha224(&m), "sha256" => h::sha256(&m), "sha384" => h::sha384(&m), "sha512" => h::sha512(&m),
                        "sha512_224" => h::sha512_224(&m), "sha512_256" => h::sha512_256(&m),
                        "sha3_224" => h::sha3_224(&m), "sha3_256" => h::sha3_256(&m), "sha3_384" => h::sha3_384(&m), "sha3_512" => h::sha3_512(&m),
                        "shake_128" => h::shake128(&m, ol), "shake_256" => h::shake256(&m, ol),
                        "blake2s" => h::blake2s(ol, &key, &m),
                        "hmac_sha256" => h::hmac_sha256(&key, &m),
                        _ => continue,
                    };
                    if refmodel::hex(&d) != f[4] {
                        errs.push(format!("refmodel {} differs from hashlib for len {} out {} key {}", f[0], n, ol, kl));
                        if errs.len() > 20 { break; }
                    } else {
                        n_ok += 1;
                    }
                }
                if n_ok < 6000 {
                    errs.push(format!("only {n_ok} golden digests verified"));
                }
            }
        }
    }
    // prime-field inverse: Euclid vs Fermat
    let p = (num_bigint::BigUint::from(1u32) << 255) - 19u32;
    for _ in 0..50 {
        let a = num_bigint::BigUint::from(r128()) * num_bigint::BigUint::from(r128()) % &p;
        if pf::inv(&a, &p) != pf::inv_fermat(&a, &p) {
            errs.push("refmodel pf::inv != Fermat inverse".into());
        }
    }
    errs
}
