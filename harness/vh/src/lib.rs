pub fn y() {}
