//! Table of field types + generic builders from generated sources.

use crate::fieldapi::{SplitKind, PF};
use crate::gen::{Src, FV};
use num_bigint::BigUint;

#[derive(Clone, Debug)]
pub struct TypeInfo {
    pub name: &'static str,
    pub modulus: BigUint,
    pub nlimbs: usize,
    pub enc_len: usize,
    pub raw_unreduced: bool,
    pub has_mul3: bool,
    pub has_mul_small: bool,
    pub has_sqrt: bool,
    pub has_sqrt_ext: bool,
    pub has_decode32: bool,
    pub has_invert: bool,
    pub split: SplitKind,
    /// low limb of 2^(64*nlimbs-1)... "MQ" style hint used by the limb-pattern generator
    pub mq_hint: u64,
    pub is_gf255: bool,
    pub is_secp_w64: bool,
}

pub fn info<T: PF>() -> TypeInfo {
    let q = T::modulus();
    let full = BigUint::from(1u32) << (q.bits());
    let d = &full - &q;
    let mq_hint = d.to_u64_digits().first().copied().unwrap_or(1);
    TypeInfo {
        name: T::NAME,
        modulus: q,
        nlimbs: T::NLIMBS,
        enc_len: T::enc_len(),
        raw_unreduced: T::RAW_UNREDUCED,
        has_mul3: T::HAS_MUL3,
        has_mul_small: T::HAS_MUL_SMALL,
        has_sqrt: T::HAS_SQRT,
        has_sqrt_ext: T::HAS_SQRT_EXT,
        has_decode32: T::HAS_DECODE32,
        has_invert: T::HAS_INVERT,
        split: T::SPLIT,
        mq_hint,
        is_gf255: T::NAME.starts_with("GF255"),
        is_secp_w64: T::NAME == "GFsecp256k1" && T::HAS_MUL_SMALL,
    }
}

pub fn all_infos() -> Vec<TypeInfo> {
    let mut v: Vec<TypeInfo> = Vec::new();
    macro_rules! push {
        ($t:ty) => {
            v.push(info::<$t>());
        };
    }
    crate::for_all_pf!(push);
    v
}

pub fn build_src<T: PF>(s: &Src) -> T {
    match s {
        Src::Limbs { l, kind } => {
            let mut ll = l.clone();
            ll.resize(T::NLIMBS, 0);
            T::from_limbs(&ll, *kind)
        }
        Src::Int { v, k } => match k % 6 {
            0 => T::from_i32(*v as i32),
            1 => T::from_u32(*v as u32),
            2 => T::from_i64(*v as i64),
            3 => T::from_u64(*v as u64),
            4 => T::from_i128(*v),
            _ => T::from_u128(*v as u128),
        },
        Src::Red { b } => T::decode_reduce(b, 0),
    }
}

pub fn build_fv<T: PF>(v: &FV) -> T {
    let mut x: T = build_src(&v.src);
    for (op, s) in &v.chain {
        let y: T = build_src(s);
        x = match op % crate::gen::NCHAIN_OPS {
            0 => T::add(x, y, 0),
            1 => T::sub(x, y, 0),
            2 => T::mul(x, y, 0),
            3 => T::neg(x, 0),
            4 => T::add(x, x, 0),
            5 => T::sub(y, x, 0),
            6 => {
                let c = crate::gen::chain_small_mult(&crate::gen::int_of_src(s, &T::modulus()), &T::modulus());
                if T::HAS_MUL_SMALL { T::mul_small(x, c, 0) } else { T::mul(x, T::from_u32(c), 0) }
            }
            7 => {
                let c = crate::gen::chain_small_mult(&crate::gen::int_of_src(s, &T::modulus()), &T::modulus());
                T::mulk(x, 2u32 << (c % 5), 0)
            }
            8 => T::square(x, 0),
            9 => T::half(x),
            _ => if T::HAS_MUL3 { T::mul3(x) } else { T::add(T::add(x, x, 0), x, 0) },
        };
    }
    x
}

/// Leak a string to get a `'static` class name (a few hundred names per process).
pub fn leak(s: String) -> &'static str {
    Box::leak(s.into_boxed_str())
}
