//! C18 - seeded operation traces whose observable results (encodings, status words, booleans) are printed
//! as a transcript; the same trace is executed under every build configuration and compared.
//! Inputs are abstract (bytes / integers), never limb patterns, and generation does not depend on the
//! configuration. Results documented as one-of-several are replaced by their validity predicate.

use crate::engine::hex;
use crate::points::*;
use crate::props::c09::TapeRng;
use crate::with_group;
use proptest::prelude::*;
use refmodel::curves::RefGroup;
use serde::{Deserialize, Serialize};

#[derive(Clone, Debug, Hash, Serialize, Deserialize)]
pub enum Op {
    Field { ty: u8, a: Vec<u8>, b: Vec<u8>, n: u16, x: u32, i: i64 },
    Bin { a: Vec<u8>, b: Vec<u8>, n: u16, j: u32 },
    Zu { a: Vec<u8>, b: Vec<u8>, c: u32 },
    Point { g: u8, p: PV, q: PV, k: Vec<u8>, k2: Vec<u8>, n: u8, m: u64 },
    Dec { g: u8, b: Vec<u8> },
    EdSig { c: u8, seed: Vec<u8>, v: u8, ctx: Vec<u8>, m: Vec<u8>, flip: u16, rm: u8 },
    Ecdsa { c: u8, d: Vec<u8>, hv: Vec<u8>, extra: Vec<u8>, flip: u16, rm: u8 },
    Schnorr { g: u8, sk: Vec<u8>, hn: String, data: Vec<u8>, seed: Vec<u8>, peer: Vec<u8> },
    X { big: bool, u: Vec<u8>, k: Vec<u8> },
    Hash { f: u8, out_len: u8, key: Vec<u8>, chunks: Vec<Vec<u8>> },
    Frost { suite: u8, tape: Vec<u8>, msg: Vec<u8> },
    Lms { set: u8, tape: Vec<u8>, msg: Vec<u8> },
    Map { g: u8, hn: String, data: Vec<u8> },
}

pub const FIELD_NAMES: &[&str] = &[
    "GF25519", "GF255e", "GF255s", "GF255<31>", "GF255<921>", "GF255<32715>", "GFp256", "GFsecp256k1", "GF448", "ed25519::Scalar", "jq255e::Scalar", "jq255s::Scalar", "p256::Scalar",
    "secp256k1::Scalar", "gls254::Scalar", "ed448::Scalar", "ModInt256<2^193+2^100-209>", "ModInt256<p224>", "ModInt256<3*2^254-43>", "ModInt256<2^255-19>",
];

fn bytes(max: usize) -> BoxedStrategy<Vec<u8>> {
    prop_oneof![
        3 => prop::collection::vec(any::<u8>(), 0..max),
        1 => prop::sample::select(vec![0usize, 1, 16, 31, 32, 33, 56, 57, 64]).prop_flat_map(|n| prop::collection::vec(prop::sample::select(vec![0u8, 0xFF, 0x7F, 0x80, 0xED, 0x01]), n)),
    ]
    .boxed()
}

pub fn op_strategy() -> BoxedStrategy<Op> {
    prop_oneof![
        12 => (0u8..FIELD_NAMES.len() as u8, bytes(70), bytes(70), prop_oneof![0u16..6, 6u16..200], any::<u32>(), any::<i64>()).prop_map(|(ty, a, b, n, x, i)| Op::Field { ty, a, b, n, x, i }),
        3 => (bytes(40), bytes(40), 0u16..200, any::<u32>()).prop_map(|(a, b, n, j)| Op::Bin { a, b, n, j }),
        1 => (prop::collection::vec(any::<u8>(), 32), prop::collection::vec(any::<u8>(), 32), any::<u32>()).prop_map(|(a, b, c)| Op::Zu { a, b, c }),
        8 => (0usize..NGROUPS).prop_flat_map(|g| (Just(g as u8), any_pv(g), any_pv(g), any_gscalar(g), any_gscalar(g), any::<u8>(), any::<u64>())).prop_map(|(g, p, q, k, k2, n, m)| Op::Point { g, p, q, k, k2, n, m }),
        4 => (0usize..NGROUPS).prop_flat_map(|g| (Just(g as u8), (0..crate::props::c06::DEC_CLASSES.len()).prop_flat_map(move |c| crate::props::c06::dec_strategy(g, c)))).prop_map(|(g, b)| Op::Dec { g, b }),
        3 => (0u8..2, prop::collection::vec(any::<u8>(), 57), 0u8..3, bytes(20), bytes(100), any::<u16>(), 8u8..=20).prop_map(|(c, seed, v, ctx, m, flip, rm)| Op::EdSig { c, seed, v, ctx, m, flip, rm }),
        3 => (0u8..2, prop::collection::vec(any::<u8>(), 40), bytes(70), bytes(40), any::<u16>(), 8u8..=14).prop_map(|(c, d, hv, extra, flip, rm)| Op::Ecdsa { c, d, hv, extra, flip, rm }),
        3 => (0u8..3, prop::collection::vec(any::<u8>(), 40), prop::sample::select(vec!["", "sha256", "blake2s"]), bytes(100), bytes(40), bytes(40)).prop_map(|(g, sk, hn, data, seed, peer)| Op::Schnorr { g, sk, hn: hn.to_string(), data, seed, peer }),
        2 => (any::<bool>(), prop::collection::vec(any::<u8>(), 56), prop::collection::vec(any::<u8>(), 56)).prop_map(|(big, u, k)| Op::X { big, u, k }),
        6 => (0u8..15, 1u8..=32, prop::collection::vec(any::<u8>(), 0..=32), prop::collection::vec(prop_oneof![bytes(300), prop::sample::select(vec![0usize, 1, 63, 64, 65, 127, 128, 129, 135, 136, 137]).prop_flat_map(|n| prop::collection::vec(any::<u8>(), n))], 0..5)).prop_map(|(f, out_len, key, chunks)| Op::Hash { f, out_len, key, chunks }),
        1 => (0u8..5, prop::collection::vec(any::<u8>(), 8..40), bytes(60)).prop_map(|(suite, tape, msg)| Op::Frost { suite, tape, msg }),
        1 => (0u8..4, prop::collection::vec(any::<u8>(), 8..40), bytes(60)).prop_map(|(set, tape, msg)| Op::Lms { set, tape, msg }),
        2 => (4u8..9, prop::sample::select(vec!["", "sha256", "x"]), bytes(120)).prop_map(|(g, hn, data)| Op::Map { g, hn: hn.to_string(), data }),
    ]
    .boxed()
}

fn field_op<T: crate::fieldapi::PF>(a: &[u8], b: &[u8], n: u16, x: u32, i: i64, out: &mut Vec<u8>) {
    use crate::fieldapi::SplitKind;
    let (ea, eb) = (T::decode_reduce(a, 0), T::decode_reduce(b, 0));
    let mut put = |v: T| out.extend(T::encode(v));
    put(ea);
    put(T::add(ea, eb, 0));
    put(T::sub(ea, eb, 1));
    put(T::mul(ea, eb, 0));
    put(T::neg(ea, 0));
    put(T::square(ea, 0));
    put(T::xsquare(ea, n as u32));
    put(T::half(ea));
    for k in [2u32, 4, 8, 16, 32] {
        put(T::mulk(ea, k, 0));
    }
    // only operations that every configuration offers for this type (GF448 and GFsecp256k1 are dedicated types
    // under w64 and instances of the generic types under w32, with different optional methods)
    let varies = T::NAME == "GF448" || T::NAME == "GFsecp256k1";
    if T::HAS_MUL3 && !varies {
        put(T::mul3(ea));
    }
    if T::HAS_MUL_SMALL && !varies {
        put(T::mul_small(ea, x, 0));
    }
    put(T::div(ea, eb, 0));
    put(T::from_i64(i));
    put(T::from_u32(x));
    put(T::from_i128((i as i128) << 40));
    put(T::select(&ea, &eb, if x & 1 == 0 { 0 } else { 0xFFFFFFFF }));
    let mut bi = vec![ea, eb, T::add(ea, eb, 0), T::zero(), T::one()];
    T::batch_invert(&mut bi);
    for v in bi {
        put(v);
    }
    drop(put);
    out.extend((T::legendre(ea) as i32).to_le_bytes());
    out.extend(T::equals(ea, eb).to_le_bytes());
    out.extend(T::iszero(T::sub(ea, ea, 0)).to_le_bytes());
    if T::HAS_SQRT {
        let (r, s) = T::sqrt(ea);
        out.extend(T::encode(r));
        out.extend(s.to_le_bytes());
        let (r, s) = T::sqrt(T::square(eb, 0));
        out.extend(T::encode(r));
        out.extend(s.to_le_bytes());
    }
    if T::HAS_SQRT_EXT {
        // documented as one of several admissible values on failure: status + validity predicate only
        let (r, s) = T::sqrt_ext(ea);
        out.extend(s.to_le_bytes());
        let r2 = T::square(r, 0);
        let ok = T::equals(r2, ea) | T::equals(r2, T::neg(ea, 0)) | T::equals(r2, T::add(ea, ea, 0)) | T::equals(r2, T::neg(T::add(ea, ea, 0), 0));
        out.extend(ok.to_le_bytes());
    }
    // strict decoders on the raw bytes
    let (v, s) = T::decode_ct(a, 0);
    out.extend(T::encode(v));
    out.extend(s.to_le_bytes());
    out.push(T::decode(b).is_some() as u8);
    if T::HAS_DECODE32 {
        let (v, s) = T::decode32(a);
        out.extend(T::encode(v));
        out.extend(s.to_le_bytes());
    }
    // splits: documented one-of-several -> contract predicate only
    match if varies { SplitKind::None } else { T::SPLIT } {
        SplitKind::I128 => {
            let (c0, c1) = T::split_i128(ea);
            // k*c1 - c0 is a multiple of 2^128-corrections: checked by C11; here only "c1 != 0 unless both zero"
            out.push((c1 != 0 || c0 == 0) as u8);
        }
        SplitKind::Bytes => {
            let (c0, c1) = T::split_bytes(ea);
            out.push((c1.iter().any(|x| *x != 0) || c0.iter().all(|x| *x == 0)) as u8);
        }
        SplitKind::None => {}
    }
}

fn point_op<G: Grp>(p: &PV, q: &PV, k: &[u8], k2: &[u8], n: u8, m: u64, out: &mut Vec<u8>) {
    let g = G::G;
    let r = rg(g);
    let ord = r.order();
    let (ks, k2s): (G::S, G::S) = (scalar_of::<G>(&(refmodel::pf::from_le(k) % &ord)), scalar_of::<G>(&(refmodel::pf::from_le(k2) % &ord)));
    let (pp, qq): (G, G) = (build_pv(p), build_pv(q));
    out.extend(pp.encode());
    out.extend(G::add(pp, qq, 0).encode());
    out.extend(G::sub(pp, qq, 1).encode());
    out.extend(G::neg(pp, 0).encode());
    out.extend(G::double(pp, 0).encode());
    out.extend(G::xdouble(pp, (n % 40) as u32, 0).encode());
    out.extend(G::mul_small(pp, m, 0).encode());
    out.extend(G::mul(pp, &ks, 0).encode());
    out.extend(G::mulgen(&ks, 0).encode());
    out.extend(G::mul_add_mulgen_vartime(pp, &ks, &k2s, 0).encode());
    out.extend(G::equals(pp, qq).to_le_bytes());
    out.extend(G::isneutral(G::sub(pp, pp, 0)).to_le_bytes());
    out.extend(G::select(&pp, &qq, if n & 1 == 0 { 0 } else { 0xFFFFFFFF }).encode());
}

fn dec_op<G: Grp>(b: &[u8], out: &mut Vec<u8>) {
    match G::decode(b, 1) {
        Ok(Some(p)) => {
            out.push(1);
            out.extend(p.encode());
        }
        Ok(None) => out.push(0),
        Err(_) => out.push(2),
    }
}

macro_rules! frost_op {
    ($m:ident, $tape:expr, $msg:expr, $out:expr) => {{
        use crrl::frost::$m::*;
        let mut rng = TapeRng { tape: $tape.clone(), pos: 0 };
        let sk = GroupPrivateKey::generate(&mut rng);
        let pk = sk.get_public_key();
        $out.extend(pk.encode());
        let sig = sk.sign_seeded(&$tape[..4], $msg);
        $out.extend(sig.encode());
        $out.push(pk.verify(sig, $msg) as u8);
        let (shares, vss) = KeySplitter::trusted_split(&mut rng, sk, 2, 3);
        for s in &shares {
            $out.extend(s.encode());
            $out.push(s.verify_split(&vss) as u8);
        }
        $out.extend(VSSElement::encode_list(&vss));
        let (n0, c0) = shares[0].commit(&mut rng);
        let (n1, c1) = shares[1].commit(&mut rng);
        let list = [c0, c1];
        let s0 = shares[0].sign(n0, c0, $msg, &list);
        let s1 = shares[1].sign(n1, c1, $msg, &list);
        if let (Some(s0), Some(s1)) = (s0, s1) {
            $out.extend(s0.encode());
            $out.extend(s1.encode());
            let co = Coordinator::new(2, pk).unwrap();
            let pks = [shares[0].get_public_key(), shares[1].get_public_key()];
            match co.assemble_signature(&[s0, s1], &list, &pks, $msg) {
                Some(sg) => { $out.extend(sg.encode()); $out.push(pk.verify(sg, $msg) as u8); }
                None => $out.push(0xEE),
            }
        } else {
            $out.push(0xEF);
        }
    }};
}

/// Execute one op; returns the observable output bytes.
pub fn exec(op: &Op) -> Vec<u8> {
    let mut out = Vec::new();
    match op {
        Op::Field { ty, a, b, n, x, i } => {
            use crate::fieldapi::t::*;
            macro_rules! f {
                ($t:ty) => {
                    field_op::<$t>(a, b, *n, *x, *i, &mut out)
                };
            }
            // table lookups of the GF255 types, with any 32-bit index (out-of-range indices are documented to yield zeros)
            macro_rules! lk {
                ($t:ty) => {{
                    use crate::fieldapi::PF;
                    use crate::props::c20::LK;
                    let (ea, eb) = (<$t as PF>::decode_reduce(a, 0), <$t as PF>::decode_reduce(b, 0));
                    let tab: [$t; 64] = core::array::from_fn(|k| <$t as PF>::add(<$t as PF>::mulk(ea, 2, 0), <$t as PF>::mul_small(eb, k as u32 + 1, 0), 0));
                    let t48: [$t; 48] = core::array::from_fn(|k| tab[k]);
                    let j = match *n % 4 { 0 => *x, 1 => *x % 16, 2 => *x % 64, _ => (*x & 0xFFFF_FF0F) };
                    for v in <$t as LK>::lookup3(&t48, j) { out.extend(<$t as PF>::encode(v)); }
                    for v in <$t as LK>::lookup4(&tab, j) { out.extend(<$t as PF>::encode(v)); }
                }};
            }
            match *ty % FIELD_NAMES.len() as u8 { 0 => lk!(GF25519), 1 => lk!(GF255e), 2 => lk!(GF255s), 3 => lk!(GF255_31), 4 => lk!(GF255_921), 5 => lk!(GF255_32715), _ => {} }
            match *ty % FIELD_NAMES.len() as u8 {
                0 => f!(GF25519), 1 => f!(GF255e), 2 => f!(GF255s), 3 => f!(GF255_31), 4 => f!(GF255_921), 5 => f!(GF255_32715), 6 => f!(GFp256), 7 => f!(GFsecp256k1), 8 => f!(GF448),
                9 => f!(ScEd25519), 10 => f!(ScJq255e), 11 => f!(ScJq255s), 12 => f!(ScP256), 13 => f!(ScSecp256k1), 14 => f!(ScGls254), 15 => f!(ScEd448), 16 => f!(MI194), 17 => f!(MI224),
                18 => f!(MI3X254), _ => f!(MI25519),
            }
        }
        Op::Bin { a, b, n, j } => {
            use crrl::field::{GFb127, GFb254};
            let mk = |v: &[u8]| -> GFb254 {
                let mut w = [0u64; 4];
                for (i, c) in v.iter().take(32).enumerate() { w[i / 8] |= (*c as u64) << (8 * (i % 8)); }
                GFb254::w64le(w[0], w[1], w[2], w[3])
            };
            let (x, y) = (mk(a), mk(b));
            for v in [x, x + y, x * y, x.square(), x.xsquare(*n as u32), x / y, x.invert(), x.sqrt(), x.mul_u(), x.mul_u1(), x.mul_sb(), x.mul_b(), x.div_z(), x.div_z2()] {
                out.extend(v.encode());
            }
            out.extend(x.trace().to_le_bytes());
            let qs = x.qsolve();
            out.extend((qs.square() + qs).encode());
            out.extend(x.equals(y).to_le_bytes());
            let (x0, x1) = x.to_components();
            for v in [x0 * x1, x0.square(), x0 / x1, x0.sqrt(), x0.halftrace(), x0.mul_sb(), x0.div_z()] {
                out.extend(v.encode());
            }
            out.extend(x0.trace().to_le_bytes());
            // bit accessors on a raw value and on a computed one, at the generated index and at the positions the reduction touches
            let pr = x0 * x1;
            for k in [(*n % 127) as usize, 0, 63, 64, 126] {
                out.extend(x0.get_bit(k).to_le_bytes());
                out.extend(pr.get_bit(k).to_le_bytes());
                let mut s = pr;
                s.set_bit(k, *j);
                out.extend(s.encode());
            }
            let mut t = x0;
            t.xor_bit((*n % 127) as usize, 1);
            t.set_bit(((*n / 2) % 127) as usize, *j);
            out.extend(t.encode());
            out.extend(t.get_bit((*n % 127) as usize).to_le_bytes());
            let tab: [GFb254; 32] = core::array::from_fn(|i| x + GFb254::w64le(i as u64, 0, 0, 0));
            for v in GFb254::lookup16_x2(&tab, *j % 20) { out.extend(v.encode()); }
            out.extend(GFb254::decode_ct(a).1.to_le_bytes());
            out.extend(GFb127::decode_ct(b).1.to_le_bytes());
        }
        Op::Zu { a, b, c } => {
            use crrl::{Zu128, Zu256};
            let (x, y) = (Zu128::decode(&a[..16]).unwrap(), Zu128::decode(&b[..16]).unwrap());
            let (r, s) = x.mul128x128trunc(&y).abs();
            out.extend(r.to_le_bytes());
            out.extend(s.to_le_bytes());
            let (r, s) = x.double_inc_abs();
            out.extend(r.to_le_bytes());
            out.extend(s.to_le_bytes());
            let p = x.mul128x128(&y);
            let (r, s) = p.trunc128().abs();
            out.extend(r.to_le_bytes());
            out.extend(s.to_le_bytes());
            let (z, w) = (Zu256::decode(a).unwrap(), Zu256::decode(b).unwrap());
            out.extend(z.borrow(&w).to_le_bytes());
            out.extend(z.add_rsh224(&w).to_le_bytes());
            let mut d = x;
            d.set_sub(&y);
            d.set_sub_u32(*c);
            let (r, s) = d.abs();
            out.extend(r.to_le_bytes());
            out.extend(s.to_le_bytes());
        }
        Op::Point { g, p, q, k, k2, n, m } => with_group!(*g as usize, point_op(p, q, k, k2, *n, *m, &mut out)),
        Op::Dec { g, b } => with_group!(*g as usize, dec_op(b, &mut out)),
        Op::EdSig { c, seed, v, ctx, m, flip, rm } => {
            macro_rules! go {
                ($md:ident, $l:expr, $sl:expr) => {{
                    let sk = crrl::$md::PrivateKey::from_seed(&seed[..$l]);
                    out.extend(sk.public_key.encode());
                    let mut sig = match v % 3 { 0 => sk.sign_raw(m).to_vec(), 1 => sk.sign_ctx(ctx, m).to_vec(), _ => sk.sign_ph(ctx, m).to_vec() };
                    out.extend(&sig);
                    let pk = sk.public_key;
                    out.push(match v % 3 { 0 => pk.verify_raw(&sig, m), 1 => pk.verify_ctx(&sig, ctx, m), _ => pk.verify_ph(&sig, ctx, m) } as u8);
                    let p = *flip as usize % (8 * $sl);
                    sig[p / 8] ^= 1 << (p % 8);
                    out.push(match v % 3 { 0 => pk.verify_raw(&sig, m), 1 => pk.verify_ctx(&sig, ctx, m), _ => pk.verify_ph(&sig, ctx, m) } as u8);
                    sig[p / 8] ^= 1 << (p % 8);
                    sig
                }};
            }
            if *c == 0 {
                let sig = go!(ed25519, 32, 64);
                let pk = crrl::ed25519::PrivateKey::from_seed(&seed[..32]).public_key;
                let r = pk.verify_trunc_raw(&sig, *rm as usize, m);
                if v % 3 == 0 { out.extend(r.map(|x| x.to_vec()).unwrap_or(vec![0xEE])); }
            } else {
                let _ = go!(ed448, 57, 114);
            }
        }
        Op::Ecdsa { c, d, hv, extra, flip, rm } => {
            let mut db = d[..32].to_vec();
            db[0] &= 0x7F;
            db[31] |= 1;
            macro_rules! go {
                ($md:ident) => {{
                    let sk = crrl::$md::PrivateKey::decode(&db).unwrap();
                    let pk = sk.to_public_key();
                    out.extend(pk.encode_compressed());
                    let mut sig = sk.sign_hash(hv, extra).to_vec();
                    out.extend(&sig);
                    out.push(pk.verify_hash(&sig, hv) as u8);
                    let p = *flip as usize % 512;
                    sig[p / 8] ^= 1 << (p % 8);
                    out.push(pk.verify_hash(&sig, hv) as u8);
                    sig[p / 8] ^= 1 << (p % 8);
                    (pk, sig)
                }};
            }
            if *c == 0 {
                let (pk, sig) = go!(p256);
                if let Some(pr) = crrl::p256::PrivateKey::prepare_truncate(&sig) {
                    out.extend(pr);
                    out.extend(pk.verify_trunc_hash(&pr, *rm as usize, hv).map(|x| x.to_vec()).unwrap_or(vec![0xEE]));
                }
            } else {
                let _ = go!(secp256k1);
            }
        }
        Op::Schnorr { g, sk, hn, data, seed, peer } => {
            let mut sb = sk[..32].to_vec();
            sb[31] &= 0x0F;
            sb[0] |= 1;
            macro_rules! go {
                ($md:ident) => {{
                    let k = crrl::$md::PrivateKey::decode(&sb).unwrap();
                    out.extend(k.public_key.encode());
                    let s1 = k.sign(hn, data);
                    let s2 = k.sign_seeded(seed, hn, data);
                    out.extend(s1);
                    out.extend(s2);
                    out.push(k.public_key.verify(&s1, hn, data) as u8);
                    out.push(k.public_key.verify(&s2, "other", data) as u8);
                    let (key, st) = k.ECDH(peer);
                    out.extend(key);
                    out.extend(st.to_le_bytes());
                    let (key, st) = k.ECDH(&crrl::$md::Point::mulgen(&crrl::$md::Scalar::decode_reduce(peer)).encode());
                    out.extend(key);
                    out.extend(st.to_le_bytes());
                }};
            }
            match g % 3 { 0 => go!(jq255e), 1 => go!(jq255s), _ => go!(gls254) }
        }
        Op::X { big, u, k } => {
            if *big {
                out.extend(crrl::x448::x448(u[..].try_into().unwrap(), k[..].try_into().unwrap()));
                out.extend(crrl::x448::x448_base(k[..].try_into().unwrap()));
            } else {
                out.extend(crrl::x25519::x25519(u[..32].try_into().unwrap(), k[..32].try_into().unwrap()));
                out.extend(crrl::x25519::x25519_base(k[..32].try_into().unwrap()));
            }
        }
        Op::Hash { f, out_len, key, chunks } => {
            // through the C17 history executor: one update per chunk, then finalize
            let ops: Vec<crate::props::c17::HOp> = chunks.iter().map(|c| crate::props::c17::HOp::Update(0, c.clone())).collect();
            out.extend(crate::props::c17::digest_of_history(*f, *out_len, key, &ops));
        }
        Op::Frost { suite, tape, msg } => match suite % 5 {
            0 => frost_op!(ed25519, tape, msg, out),
            1 => frost_op!(ristretto255, tape, msg, out),
            2 => frost_op!(ed448, tape, msg, out),
            3 => frost_op!(p256, tape, msg, out),
            _ => frost_op!(secp256k1, tape, msg, out),
        },
        Op::Lms { set, tape, msg } => {
            macro_rules! go {
                ($m:ident) => {{
                    let mut rng = TapeRng { tape: tape.clone(), pos: 0 };
                    let mut sk = crrl::lms::$m::PrivateKey::generate(&mut rng);
                    let pk = sk.compute_public();
                    let s = sk.sign(&mut rng, msg).unwrap();
                    out.extend(refmodel::hashes::sha256(&s));
                    out.push(pk.verify(&s, msg) as u8);
                }};
            }
            match set % 4 { 0 => go!(LMS_SHA256_M32_H5_SHA256_N32_W8), 1 => go!(LMS_SHA256_M24_H5_SHA256_N24_W8), 2 => go!(LMS_SHAKE_M24_H5_SHAKE_N24_W8), _ => go!(LMS_SHAKE_M32_H5_SHAKE_N32_W8) }
        }
        Op::Map { g, hn, data } => match g {
            4 => out.extend(crrl::jq255e::Point::hash_to_curve(hn, data).encode()),
            5 => out.extend(crrl::jq255s::Point::hash_to_curve(hn, data).encode()),
            6 => out.extend(crrl::gls254::Point::hash_to_curve(hn, data).encode()),
            7 => { let mut d = data.clone(); d.resize(64, 0x33); out.extend(crrl::ristretto255::Point::one_way_map(&d).encode()) }
            _ => { let mut d = data.clone(); d.resize(112, 0x33); out.extend(crrl::decaf448::Point::one_way_map(&d).encode()) }
        },
    }
    out
}

pub fn op_kind(op: &Op) -> &'static str {
    match op {
        Op::Field { .. } => "field", Op::Bin { .. } => "binfield", Op::Zu { .. } => "zu", Op::Point { .. } => "point", Op::Dec { .. } => "decode", Op::EdSig { .. } => "eddsa",
        Op::Ecdsa { .. } => "ecdsa", Op::Schnorr { .. } => "schnorr_ecdh", Op::X { .. } => "x25519_x448", Op::Hash { .. } => "hash", Op::Frost { .. } => "frost", Op::Lms { .. } => "lms", Op::Map { .. } => "map",
    }
}

/// the seeded trace (identical in every configuration)
pub fn trace(seed: u64, count: usize) -> Vec<Op> {
    crate::engine::sample_strategy(&op_strategy(), seed ^ 0xC18, count)
}

pub fn line(i: usize, op: &Op) -> String {
    let r = crate::engine::guard(|| exec(op));
    match r {
        Ok(o) => format!("{i} {} {}", op_kind(op), hex(&refmodel::hashes::sha256(&o)[..16])),
        Err(e) => format!("{i} {} PANIC {e}", op_kind(op)),
    }
}

#[allow(dead_code)]
fn _r(_: &dyn RefGroup) {}
