//! C02 driver: runs every constant-time entry point on *tainted* secrets. Under
//! `valgrind --tool=memcheck` the secret bytes are marked undefined through a client request, so that
//! every conditional jump or memory address that depends on them is reported (memcheck's shadow bits
//! are the dynamic taint tracking). Outside valgrind the client requests are no-ops, and the program
//! just prints which entries exist and whether the secret influenced the output.

#![allow(non_snake_case)]

use crate::props::c09::TapeRng;
use std::hint::black_box;

// ------------------------------------------------------------------ valgrind client requests

#[cfg(target_arch = "x86_64")]
#[inline(never)]
fn vg_request(req: u64, a1: u64, a2: u64) -> u64 {
    let args: [u64; 6] = [req, a1, a2, 0, 0, 0];
    let mut res: u64 = 0;
    unsafe {
        core::arch::asm!(
            "rol rdi, 3", "rol rdi, 13", "rol rdi, 61", "rol rdi, 51", "xchg rbx, rbx",
            inout("rdx") res, in("rax") args.as_ptr(), out("rdi") _,
            options(nostack)
        );
    }
    res
}
#[cfg(not(target_arch = "x86_64"))]
fn vg_request(_req: u64, _a1: u64, _a2: u64) -> u64 {
    0
}

const VG_MAKE_MEM_UNDEFINED: u64 = 0x4d430001;
const VG_MAKE_MEM_DEFINED: u64 = 0x4d430002;
const VG_RUNNING_ON_VALGRIND: u64 = 0x1001;

pub fn on_valgrind() -> bool {
    vg_request(VG_RUNNING_ON_VALGRIND, 0, 0) != 0
}
pub fn taint(b: &mut [u8]) {
    if !b.is_empty() {
        vg_request(VG_MAKE_MEM_UNDEFINED, b.as_mut_ptr() as u64, b.len() as u64);
    }
}
pub fn untaint<T: Copy>(v: &mut T) {
    vg_request(VG_MAKE_MEM_DEFINED, v as *mut T as u64, core::mem::size_of::<T>() as u64);
}
pub fn untaint_bytes(b: &mut [u8]) {
    if !b.is_empty() {
        vg_request(VG_MAKE_MEM_DEFINED, b.as_mut_ptr() as u64, b.len() as u64);
    }
}

// ------------------------------------------------------------------ per-case context

pub struct Ctx {
    state: u64,
    /// public shape parameters of this run
    pub shape: usize,
    pub out: Vec<u8>,
    pub tainted_bytes: usize,
}

impl Ctx {
    fn next(&mut self) -> u64 {
        self.state ^= self.state << 13;
        self.state ^= self.state >> 7;
        self.state ^= self.state << 17;
        self.state
    }
    /// n secret bytes of the given class (0 uniform, 1 all-zero, 2 all-ones, 3 small), marked undefined
    pub fn secret(&mut self, n: usize) -> Vec<u8> {
        let class = self.shape % 4;
        let mut v: Vec<u8> = (0..n).map(|_| self.next() as u8).collect();
        match class {
            1 => v.iter_mut().for_each(|x| *x = 0),
            2 => v.iter_mut().for_each(|x| *x = 0xFF),
            3 => { v.iter_mut().for_each(|x| *x = 0); if n > 0 { v[0] = 1 + (self.next() % 3) as u8; } }
            _ => {}
        }
        self.tainted_bytes += n;
        taint(&mut v);
        v
    }
    pub fn public(&mut self, n: usize) -> Vec<u8> {
        (0..n).map(|_| self.next() as u8).collect()
    }
    /// public message length drawn from the shape (crosses block boundaries)
    pub fn msg_len(&self) -> usize {
        [0usize, 1, 32, 55, 56, 63, 64, 65, 111, 112, 128, 200, 300][(self.shape / 4) % 13]
    }
    pub fn emit(&mut self, b: &[u8]) {
        let mut v = b.to_vec();
        untaint_bytes(&mut v);
        self.out.extend_from_slice(&v);
    }
    pub fn emit_u32(&mut self, x: u32) {
        let mut y = x;
        untaint(&mut y);
        self.out.extend_from_slice(&y.to_le_bytes());
    }
}

pub struct Entry {
    pub name: &'static str,
    pub f: fn(&mut Ctx),
}

// ------------------------------------------------------------------ positive controls (must be flagged)

#[inline(never)]
fn ct_entry_control_branch(c: &mut Ctx) {
    let s = c.secret(4);
    let mut x = 0u32;
    if black_box(s[0]) & 1 != 0 {
        x = black_box(12345);
    }
    c.emit_u32(x);
}
#[inline(never)]
fn ct_entry_control_index(c: &mut Ctx) {
    let s = c.secret(4);
    let tab = black_box([11u32, 22, 33, 44]);
    let x = tab[(black_box(s[1]) & 3) as usize];
    c.emit_u32(x);
}

// ------------------------------------------------------------------ fields

macro_rules! field_entries {
    ($fname:ident, $t:ty, $sqrt:expr, $n:expr) => {
        #[inline(never)]
        fn $fname(c: &mut Ctx) {
            use crate::fieldapi::PF;
            let (sa, sb) = (c.secret($n), c.secret($n));
            let a = <$t as PF>::decode_reduce(&sa, 0);
            let b = <$t as PF>::decode_reduce(&sb, 0);
            let mut r = <$t as PF>::add(a, b, 0);
            r = <$t as PF>::mul(r, <$t as PF>::sub(a, b, 0), 0);
            r = <$t as PF>::add(r, <$t as PF>::square(a, 0), 0);
            r = <$t as PF>::add(r, <$t as PF>::half(<$t as PF>::neg(b, 0)), 0);
            r = <$t as PF>::add(r, <$t as PF>::mulk(a, 8, 0), 0);
            r = <$t as PF>::add(r, <$t as PF>::xsquare(b, 3), 0);
            let q = <$t as PF>::div(r, b, 0);
            c.emit(&<$t as PF>::encode_ct(q));
            c.emit_u32(<$t as PF>::equals(a, b));
            c.emit_u32(<$t as PF>::iszero(a));
            let mut l = <$t as PF>::legendre(a);
            untaint(&mut l);
            c.emit_u32(l as u32);
            if $sqrt {
                let (rt, st) = <$t as PF>::sqrt(a);
                c.emit(&<$t as PF>::encode_ct(rt));
                c.emit_u32(st);
            }
            let (d, st) = <$t as PF>::decode_ct(&sa[..<$t as PF>::enc_len().min(sa.len())], 0);
            c.emit(&<$t as PF>::encode_ct(d));
            c.emit_u32(st);
            let ctl = <$t as PF>::iszero(b);
            let mut x = a;
            <$t as PF>::set_cond(&mut x, &b, ctl);
            let mut y = b;
            <$t as PF>::cswap(&mut x, &mut y, <$t as PF>::equals(a, b));
            c.emit(&<$t as PF>::encode_ct(<$t as PF>::select(&x, &y, !ctl)));
            let mut bi = [a, b, r, <$t as PF>::zero()];
            <$t as PF>::batch_invert(&mut bi);
            c.emit(&<$t as PF>::encode_ct(bi[2]));
        }
    };
}
field_entries!(ct_entry_field_gf25519, crrl::field::GF25519, true, 40);
field_entries!(ct_entry_field_gf255e, crrl::field::GF255e, true, 40);
field_entries!(ct_entry_field_gf255s, crrl::field::GF255s, true, 40);
field_entries!(ct_entry_field_gfp256, crrl::field::GFp256, true, 40);
field_entries!(ct_entry_field_gfsecp256k1, crrl::field::GFsecp256k1, true, 40);
field_entries!(ct_entry_field_gf448, crrl::field::GF448, true, 64);
field_entries!(ct_entry_field_sc_ed25519, crrl::ed25519::Scalar, true, 40);
field_entries!(ct_entry_field_sc_p256, crrl::p256::Scalar, false, 40);
field_entries!(ct_entry_field_sc_secp256k1, crrl::secp256k1::Scalar, false, 40);
field_entries!(ct_entry_field_sc_jq255e, crrl::jq255e::Scalar, true, 40);
field_entries!(ct_entry_field_sc_jq255s, crrl::jq255s::Scalar, true, 40);
field_entries!(ct_entry_field_sc_gls254, crrl::gls254::Scalar, true, 40);
field_entries!(ct_entry_field_sc_ed448, crrl::ed448::Scalar, true, 64);

#[inline(never)]
fn ct_entry_field_gfb254(c: &mut Ctx) {
    use crrl::field::{GFb127, GFb254};
    let sa = c.secret(32);
    let sb = c.secret(32);
    let w = |v: &[u8], i: usize| u64::from_le_bytes(v[8 * i..8 * i + 8].try_into().unwrap());
    let a = GFb254::w64le(w(&sa, 0), w(&sa, 1), w(&sa, 2), w(&sa, 3));
    let b = GFb254::w64le(w(&sb, 0), w(&sb, 1), w(&sb, 2), w(&sb, 3));
    let r = (a * b + a.square()) / b + a.sqrt() + b.invert() + a.qsolve() + a.mul_u() + b.div_z();
    c.emit(&r.encode());
    c.emit_u32(a.trace());
    c.emit_u32(a.equals(b));
    c.emit_u32(a.iszero());
    let (x0, x1) = a.to_components();
    let h = (x0 * x1 + x0.halftrace()) / x1 + x0.sqrt();
    c.emit(&h.encode());
    c.emit_u32(x0.trace());
    let (d, st) = GFb254::decode_ct(&sa);
    c.emit(&d.encode());
    c.emit_u32(st);
    let (d, st) = GFb127::decode_ct(&sa[..16]);
    c.emit(&d.encode());
    c.emit_u32(st);
    // lookups with a secret index
    let tab: [GFb254; 32] = core::array::from_fn(|i| GFb254::w64le(i as u64, 1, 2, 3));
    let j = (sa[0] & 15) as u32;
    for v in GFb254::lookup16_x2(&tab, j) {
        c.emit(&v.encode());
    }
    let t16: [GFb254; 16] = core::array::from_fn(|i| tab[i]);
    for v in GFb254::lookup8_x2(&t16, j & 7) {
        c.emit(&v.encode());
    }
    let t8: [GFb254; 8] = core::array::from_fn(|i| tab[i]);
    for v in GFb254::lookup4_x2(&t8, j & 3) {
        c.emit(&v.encode());
    }
    for v in GFb254::lookup4_x2_nocheck(&t8, j & 3) {
        c.emit(&v.encode());
    }
}

#[inline(never)]
fn ct_entry_field_gf255_lookup(c: &mut Ctx) {
    use crrl::field::GF25519;
    let s = c.secret(2);
    let tab: [GF25519; 64] = core::array::from_fn(|i| GF25519::from_u32(i as u32 + 7));
    let t48: [GF25519; 48] = core::array::from_fn(|i| tab[i]);
    for v in GF25519::lookup16_x4(&tab, (s[0] & 15) as u32) {
        c.emit(&v.encode());
    }
    for v in GF25519::lookup16_x3(&t48, (s[1] & 31) as u32) {
        c.emit(&v.encode());
    }
}

// ------------------------------------------------------------------ groups

macro_rules! group_entries {
    ($fname:ident, $P:ty, $S:ty, $sl:expr) => {
        #[inline(never)]
        fn $fname(c: &mut Ctx) {
            use crate::points::Grp;
            let sk = c.secret($sl);
            let sk2 = c.secret($sl);
            let k = <$S>::decode_reduce(&sk);
            let k2 = <$S>::decode_reduce(&sk2);
            // key generation: secret scalar times the generator
            let Q = <$P>::mulgen(&k);
            c.emit(&Grp::encode(Q));
            // secret scalar times a public point, and times a secret point
            let pub_pt = <$P>::mulgen(&<$S>::decode_reduce(&c.public(32)));
            let R = pub_pt * k;
            c.emit(&Grp::encode(R));
            let T = Q * k2;
            // group law on secret points
            let U = T + R - Q.double() + (-R).xdouble(2);
            c.emit(&Grp::encode(U));
            c.emit_u32(U.equals(T));
            c.emit_u32(U.isneutral());
            let mut V = U;
            V.set_cond(&T, U.isneutral());
            V.set_condneg(U.equals(T));
            c.emit(&Grp::encode(<$P>::select(&V, &T, !U.isneutral())));
            // constant-time decoding of secret bytes
            let mut W = <$P>::BASE;
            let enc = Grp::encode(T);
            let mut e2 = enc.clone();
            e2[1] ^= sk[0] & 1;
            let st = W.set_decode(&e2);
            c.emit_u32(st);
            c.emit(&Grp::encode(W));
        }
    };
}
group_entries!(ct_entry_group_ed25519, crrl::ed25519::Point, crrl::ed25519::Scalar, 40);
group_entries!(ct_entry_group_ed448, crrl::ed448::Point, crrl::ed448::Scalar, 64);
group_entries!(ct_entry_group_p256, crrl::p256::Point, crrl::p256::Scalar, 40);
group_entries!(ct_entry_group_secp256k1, crrl::secp256k1::Point, crrl::secp256k1::Scalar, 40);
group_entries!(ct_entry_group_jq255e, crrl::jq255e::Point, crrl::jq255e::Scalar, 40);
group_entries!(ct_entry_group_jq255s, crrl::jq255s::Point, crrl::jq255s::Scalar, 40);
group_entries!(ct_entry_group_gls254, crrl::gls254::Point, crrl::gls254::Scalar, 40);
group_entries!(ct_entry_group_ristretto255, crrl::ristretto255::Point, crrl::ristretto255::Scalar, 40);
group_entries!(ct_entry_group_decaf448, crrl::decaf448::Point, crrl::decaf448::Scalar, 64);

#[inline(never)]
fn ct_entry_maps(c: &mut Ctx) {
    let s = c.secret(112);
    c.emit(&crrl::ristretto255::Point::one_way_map(&s[..64]).encode());
    c.emit(&crrl::decaf448::Point::one_way_map(&s).encode());
    let n = c.msg_len().min(112);
    c.emit(&crrl::jq255e::Point::hash_to_curve("", &s[..n]).encode());
    c.emit(&crrl::jq255s::Point::hash_to_curve("sha256", &s[..n]).encode());
    c.emit(&crrl::gls254::Point::hash_to_curve("", &s[..n]).encode());
}

// ------------------------------------------------------------------ signatures / key exchange

#[inline(never)]
fn ct_entry_ed25519_sign(c: &mut Ctx) {
    let seed = c.secret(32);
    let n = c.msg_len();
    let m = c.secret(n);
    let ctx = c.public([0usize, 1, 255][c.shape % 3]);
    let sk = crrl::ed25519::PrivateKey::from_seed(&seed);
    c.emit(&sk.public_key.encode());
    c.emit(&sk.sign_raw(&m));
    c.emit(&sk.sign_ctx(&ctx, &m));
    c.emit(&sk.sign_ph(&ctx, &m[..n.min(64)]));
}
#[inline(never)]
fn ct_entry_ed448_sign(c: &mut Ctx) {
    let seed = c.secret(57);
    let n = c.msg_len();
    let m = c.secret(n);
    let ctx = c.public([0usize, 1, 255][c.shape % 3]);
    let sk = crrl::ed448::PrivateKey::from_seed(&seed);
    c.emit(&sk.public_key.encode());
    c.emit(&sk.sign_raw(&m));
    c.emit(&sk.sign_ctx(&ctx, &m));
    c.emit(&sk.sign_ph(&ctx, &m[..n.min(64)]));
}
#[inline(never)]
fn ct_entry_p256_sign(c: &mut Ctx) {
    let seed = c.secret(32);
    let hv = c.secret([0usize, 20, 32, 64][c.shape % 4]);
    let extra = c.secret([0usize, 16][(c.shape / 4) % 2]);
    let sk = crrl::p256::PrivateKey::from_seed(&seed);
    c.emit(&sk.to_public_key().encode_compressed());
    c.emit(&sk.sign_hash(&hv, &extra));
    c.emit(&sk.encode());
    // decoding a (valid) private key is documented as constant-time
    if let Some(k2) = crrl::p256::PrivateKey::decode(&sk.encode()) { c.emit(&k2.encode()); }
}
#[inline(never)]
fn ct_entry_secp256k1_sign(c: &mut Ctx) {
    let seed = c.secret(32);
    let hv = c.secret([0usize, 20, 32, 64][c.shape % 4]);
    let extra = c.secret([0usize, 16][(c.shape / 4) % 2]);
    let sk = crrl::secp256k1::PrivateKey::from_seed(&seed);
    c.emit(&sk.to_public_key().encode_compressed());
    c.emit(&sk.sign_hash(&hv, &extra));
    c.emit(&sk.encode());
    if let Some(k2) = crrl::secp256k1::PrivateKey::decode(&sk.encode()) { c.emit(&k2.encode()); }
}
macro_rules! schnorr_entry {
    ($fname:ident, $m:ident) => {
        #[inline(never)]
        fn $fname(c: &mut Ctx) {
            let sb = c.secret(40);
            // the documented constructor panics on a zero scalar: the key is built through the generator
            let mut rng = TapeRng { tape: sb.clone(), pos: 0 };
            let sk = crrl::$m::PrivateKey::generate(&mut rng);
            let n = c.msg_len();
            let data = c.secret(n);
            let seed = c.secret(16);
            c.emit(&sk.public_key.encode());
            c.emit(&sk.sign("", &data));
            c.emit(&sk.sign_seeded(&seed, "sha256", &data[..n.min(32)]));
            c.emit(&sk.encode());
            if let Some(k2) = crrl::$m::PrivateKey::decode(&sk.encode()) { c.emit(&k2.encode()); }
            // ECDH with a valid, an invalid and a neutral peer key (public values)
            let peer = crrl::$m::Point::mulgen(&crrl::$m::Scalar::decode_reduce(&c.public(32))).encode();
            let (k, st) = sk.ECDH(&peer);
            c.emit(&k);
            c.emit_u32(st);
            let (k, st) = sk.ECDH(&c.public(32));
            c.emit(&k);
            c.emit_u32(st);
            let (k, st) = sk.ECDH(&[0u8; 32]);
            c.emit(&k);
            c.emit_u32(st);
        }
    };
}
schnorr_entry!(ct_entry_jq255e_sign_ecdh, jq255e);
schnorr_entry!(ct_entry_jq255s_sign_ecdh, jq255s);
schnorr_entry!(ct_entry_gls254_sign_ecdh, gls254);

#[inline(never)]
fn ct_entry_x25519(c: &mut Ctx) {
    let k = c.secret(32);
    let u = c.public(32);
    let su = c.secret(32);
    c.emit(&crrl::x25519::x25519(u[..].try_into().unwrap(), k[..].try_into().unwrap()));
    c.emit(&crrl::x25519::x25519(su[..].try_into().unwrap(), k[..].try_into().unwrap()));
    c.emit(&crrl::x25519::x25519_base(k[..].try_into().unwrap()));
}
#[inline(never)]
fn ct_entry_x448(c: &mut Ctx) {
    let k = c.secret(56);
    let u = c.public(56);
    let su = c.secret(56);
    c.emit(&crrl::x448::x448(u[..].try_into().unwrap(), k[..].try_into().unwrap()));
    c.emit(&crrl::x448::x448(su[..].try_into().unwrap(), k[..].try_into().unwrap()));
    c.emit(&crrl::x448::x448_base(k[..].try_into().unwrap()));
}

#[inline(never)]
fn ct_entry_hashes(c: &mut Ctx) {
    let n = c.msg_len();
    let m = c.secret(n);
    let key = c.secret([0usize, 1, 32][c.shape % 3]);
    c.emit(&crrl::sha2::Sha224::hash(&m));
    c.emit(&crrl::sha2::Sha256::hash(&m));
    c.emit(&crrl::sha2::Sha384::hash(&m));
    c.emit(&crrl::sha2::Sha512::hash(&m));
    c.emit(&crrl::sha2::Sha512_256::hash(&m));
    c.emit(&crrl::sha3::SHA3_256::hash(&m));
    c.emit(&crrl::sha3::SHA3_512::hash(&m));
    let mut sh = crrl::sha3::SHAKE256::new();
    sh.inject(&m);
    let mut o = [0u8; 70];
    sh.flip_extract(&mut o);
    c.emit(&o);
    let mut o = [0u8; 32];
    crrl::blake2s::KeyedBlake2s::hash_into(32, &key, &m, &mut o);
    c.emit(&o);
    c.emit(&crrl::blake2s::Blake2s256::hash(&m));
}

macro_rules! frost_entry {
    ($fname:ident, $m:ident) => {
        #[inline(never)]
        fn $fname(c: &mut Ctx) {
            use crrl::frost::$m::*;
            let tape = c.secret(64);
            let mut rng = TapeRng { tape, pos: 0 };
            let sk = GroupPrivateKey::generate(&mut rng);
            let (shares, _vss) = KeySplitter::trusted_split(&mut rng, sk, 2, 3);
            let msg = c.public(20);
            let (n0, c0) = shares[0].commit(&mut rng);
            let (n1, c1) = shares[1].commit(&mut rng);
            // commitments are published values
            let mut e0 = c0.encode();
            let mut e1 = c1.encode();
            untaint_bytes(&mut e0);
            untaint_bytes(&mut e1);
            let (p0, p1) = (Commitment::decode(&e0).unwrap(), Commitment::decode(&e1).unwrap());
            let list = [p0, p1];
            if let Some(s) = shares[0].sign(n0, p0, &msg, &list) {
                c.emit(&s.encode());
            }
            let _ = n1;
            c.emit(&sk.sign_seeded(&[1, 2], &msg).encode());
            c.emit(&shares[2].encode());
            // wire decoders of secret objects
            if let Some(k2) = GroupPrivateKey::decode(&sk.encode()) { c.emit(&k2.encode()); }
        }
    };
}
frost_entry!(ct_entry_frost_ed25519, ed25519);
frost_entry!(ct_entry_frost_ristretto255, ristretto255);
frost_entry!(ct_entry_frost_ed448, ed448);
frost_entry!(ct_entry_frost_p256, p256);
frost_entry!(ct_entry_frost_secp256k1, secp256k1);

#[inline(never)]
fn ct_entry_lms_sign(c: &mut Ctx) {
    // only SEED is secret (I is part of the public key): the tape is public for the first 16 bytes
    let mut tape = c.public(16);
    tape.extend(c.secret(32));
    let mut rng = TapeRng { tape, pos: 0 };
    let mut sk = crrl::lms::LMS_SHA256_M32_H5_SHA256_N32_W8::PrivateKey::generate(&mut rng);
    let msg = c.public(10);
    let mut rng2 = TapeRng { tape: c.public(32), pos: 0 };
    if let Some(s) = sk.sign(&mut rng2, &msg) {
        c.emit(&s[..64]);
    }
}

pub fn entries() -> Vec<Entry> {
    macro_rules! e {
        ($($f:ident),*) => { vec![$(Entry { name: &stringify!($f)[9..], f: $f }),*] };
    }
    e!(
        ct_entry_control_branch, ct_entry_control_index,
        ct_entry_field_gf25519, ct_entry_field_gf255e, ct_entry_field_gf255s, ct_entry_field_gfp256, ct_entry_field_gfsecp256k1, ct_entry_field_gf448,
        ct_entry_field_sc_ed25519, ct_entry_field_sc_p256, ct_entry_field_sc_secp256k1, ct_entry_field_sc_jq255e, ct_entry_field_sc_jq255s, ct_entry_field_sc_gls254, ct_entry_field_sc_ed448,
        ct_entry_field_gfb254, ct_entry_field_gf255_lookup,
        ct_entry_group_ed25519, ct_entry_group_ed448, ct_entry_group_p256, ct_entry_group_secp256k1, ct_entry_group_jq255e, ct_entry_group_jq255s, ct_entry_group_gls254,
        ct_entry_group_ristretto255, ct_entry_group_decaf448, ct_entry_maps,
        ct_entry_ed25519_sign, ct_entry_ed448_sign, ct_entry_p256_sign, ct_entry_secp256k1_sign, ct_entry_jq255e_sign_ecdh, ct_entry_jq255s_sign_ecdh, ct_entry_gls254_sign_ecdh,
        ct_entry_x25519, ct_entry_x448, ct_entry_hashes,
        ct_entry_frost_ed25519, ct_entry_frost_ristretto255, ct_entry_frost_ed448, ct_entry_frost_p256, ct_entry_frost_secp256k1, ct_entry_lms_sign
    )
}

fn arg(args: &[String], name: &str) -> Option<String> {
    args.iter().position(|a| a == name).and_then(|i| args.get(i + 1).cloned())
}

/// `vexec ct --list` | `vexec ct --seed S --shapes K [--only name]`
/// Output: one line per executed case: `case <entry> shape=<i> tainted=<bytes> out=<sha256 prefix>`.
pub fn main(args: &[String]) {
    let es = entries();
    if args.iter().any(|a| a == "--list") {
        for e in &es {
            println!("{}", e.name);
        }
        return;
    }
    let seed: u64 = arg(args, "--seed").and_then(|s| s.parse().ok()).unwrap_or(1);
    let shapes: usize = arg(args, "--shapes").and_then(|s| s.parse().ok()).unwrap_or(3);
    let only = arg(args, "--only");
    let shape0: usize = arg(args, "--shape0").and_then(|s| s.parse().ok()).unwrap_or(0);
    let part: usize = arg(args, "--part").and_then(|s| s.parse().ok()).unwrap_or(0);
    let parts: usize = arg(args, "--parts").and_then(|s| s.parse().ok()).unwrap_or(1);
    println!("valgrind={}", on_valgrind());
    for (ei, e) in es.iter().enumerate() {
        if let Some(o) = &only {
            if e.name != o {
                continue;
            }
        } else if ei >= 2 && ei % parts != part {
            // the two positive controls run in every part
            continue;
        }
        for s in 0..shapes {
            // shape index varies the public shape (message length, context length, ...) and the secret class
            let shape = shape0 + s * 5 + (seed as usize % 3);
            let mut c = Ctx { state: (seed.wrapping_mul(0x9E3779B97F4A7C15) ^ ((ei as u64) << 32) ^ s as u64) | 1, shape, out: Vec::new(), tainted_bytes: 0 };
            (e.f)(&mut c);
            println!("case {} shape={} tainted={} out={}", e.name, shape, c.tainted_bytes, crate::engine::hex(&refmodel::hashes::sha256(&c.out)[..8]));
        }
    }
}
