//! C02 driver (filled in below).
pub fn main(_args: &[String]) {
    eprintln!("ct mode not built yet");
    std::process::exit(2);
}
