//! C01 - field arithmetic is exact for every element representation.

use crate::binfield::{self, B127Case, B254Case};
use crate::engine::*;
use crate::fieldapi::PF;
use crate::ftypes::{all_infos, build_fv, leak, TypeInfo};
use crate::gen::{self, int_of_fv, Src, FV, LIMB_CLASSES};
use num_bigint::BigUint;
use num_traits::{One, Zero};
use proptest::prelude::*;
use refmodel::pf;
use serde::{Deserialize, Serialize};

#[derive(Clone, Debug, Hash, Serialize, Deserialize)]
pub struct PCase {
    pub ty: u16,
    pub tyname: String,
    pub v: Vec<FV>,
    pub n: u32,
    pub x: u32,
    pub form: u8,
    pub k: u8,
}

#[derive(Clone, Debug, Hash, Serialize, Deserialize)]
pub enum Case {
    P(PCase),
    B127(B127Case),
    B254(B254Case),
}

pub struct C01 {
    infos: Vec<TypeInfo>,
    table: Vec<fn(&PCase) -> Outcome>,
    classes: Vec<(ClassSpec, ClassKind)>,
}

#[derive(Clone, Debug)]
enum ClassKind {
    P { ty: usize, limb_class: usize, chain: bool, mixed: bool },
    B127(usize),
    B254(usize),
}

pub trait NR: PF {
    fn nr(variant: u8, a: Self, b: Self, c: Self, d: Self) -> Self;
}
macro_rules! impl_nr {
    ($t:ty) => {
        impl NR for $t {
            fn nr(variant: u8, a: Self, b: Self, c: Self, d: Self) -> Self {
                match variant % 9 {
                    0 => a.add_noreduce(&b) * c,
                    1 => a.sub_noreduce(&b) * c.sub_noreduce(&d),
                    2 => a.mul2_noreduce() * c,
                    3 => { let (e, f) = a.mul2add_mul2sub_noreduce(&b); e * f }
                    4 => { let (h, e) = a.add_addsub_noreduce(&b, &c); h * e }
                    5 => { let (g, f) = a.sub_subadd2_noreduce(&b, &c); g * f }
                    6 => a.add_noreduce(&b).square(),
                    7 => a.sub_noreduce(&b).xsquare(3),
                    _ => c * a.add_noreduce(&b),
                }
            }
        }
    };
}
impl_nr!(crate::fieldapi::t::GF25519);
impl_nr!(crate::fieldapi::t::GF255e);
impl_nr!(crate::fieldapi::t::GF255s);
impl_nr!(crate::fieldapi::t::GF255_31);
impl_nr!(crate::fieldapi::t::GF255_921);
impl_nr!(crate::fieldapi::t::GF255_32715);

pub fn nr_model(variant: u8, a: &BigUint, b: &BigUint, c: &BigUint, d: &BigUint, q: &BigUint) -> BigUint {
    use pf::{add, mul, sub};
    match variant % 9 {
        0 => mul(&add(a, b, q), c, q),
        1 => mul(&sub(a, b, q), &sub(c, d, q), q),
        2 => mul(&add(a, a, q), c, q),
        3 => { let t = add(a, a, q); mul(&add(&t, b, q), &sub(&t, b, q), q) }
        4 => { let h = add(a, b, q); mul(&h, &sub(&h, c, q), q) }
        5 => { let g = sub(a, b, q); mul(&g, &add(&g, &add(c, c, q), q), q) }
        6 => { let t = add(a, b, q); mul(&t, &t, q) }
        7 => { let t = sub(a, b, q); pf::pow(&t, &BigUint::from(8u32), q) }
        _ => mul(c, &add(a, b, q), q),
    }
}

fn check_nr<T: NR>(c: &PCase, acc: &mut Acc) {
    let q = T::modulus();
    let e: Vec<T> = c.v.iter().map(build_fv::<T>).collect();
    let i: Vec<BigUint> = c.v.iter().map(|v| int_of_fv(v, &q)).collect();
    for variant in 0..9u8 {
        let r = guard(|| T::to_int(T::nr(variant, e[0], e[1], e[2], e[3])));
        let exp = nr_model(variant, &i[0], &i[1], &i[2], &i[3], &q);
        acc.check(
            r.as_ref().ok() == Some(&exp),
            || format!("C01:{}:noreduce{}", T::NAME, variant),
            || format!("noreduce variant {variant}: got {:?} expected {:x}", r.as_ref().map(|x| format!("{x:x}")), exp),
        );
    }
}

fn check_p<T: PF>(c: &PCase) -> Outcome {
    let mut acc = Acc::new();
    let q = T::modulus();
    let e: Vec<T> = c.v.iter().map(build_fv::<T>).collect();
    let i: Vec<BigUint> = c.v.iter().map(|v| int_of_fv(v, &q)).collect();
    let (a, b) = (e[0], e[1]);
    let (ia, ib) = (&i[0], &i[1]);
    let f = c.form;
    // non-triviality: a non-canonical / boundary construction, or a chain
    for v in &c.v[..2] {
        if !v.chain.is_empty() {
            acc.nt(true);
            acc.tag("chain");
        }
        if gen::src_is_raw_big(&v.src, &q) {
            acc.nt(true);
            acc.tag("raw_ge_q");
        }
        if let Src::Limbs { l, .. } = &v.src {
            let x = pf::from_limbs_le(l);
            let near = |y: &BigUint| {
                let d = if &x > y { &x - y } else { y - &x };
                d < BigUint::from(4u32)
            };
            if near(&q) || near(&BigUint::from(0u32)) || near(&(&q * 2u32)) || l.iter().any(|w| *w == 0 || *w == u64::MAX) {
                acc.nt(true);
                acc.tag("boundary");
            }
        }
    }
    let mut rep_shift = false;
    let mut chk = |name: &'static str, got: Result<T, String>, exp: BigUint| {
        let g = got.clone().and_then(|x| guard(|| T::encode(x)));
        let ok = match &g {
            Ok(bytes) => bytes.len() == T::enc_len() && pf::from_le(bytes) == exp,
            Err(_) => false,
        };
        acc.check(
            ok,
            || format!("C01:{}:{}", T::NAME, name),
            || format!("{name}: got {:?} expected {:x}", g.as_ref().map(|b| hex(b)), exp),
        );
        // the result must also *behave* as the value it encodes to (an unreduced internal representation can encode
        // correctly and still compare unequal): equals / iszero against the same value built canonically
        if let (true, Ok(x)) = (ok, &got) {
            let canon = T::decode_reduce(&pf::to_le(&exp, T::enc_len()), 0);
            let x = *x;
            let r = guard(|| (T::equals(x, canon), T::iszero(T::sub(x, canon, 0))));
            acc.check(r.as_ref().ok() == Some(&(0xFFFFFFFFu32, 0xFFFFFFFFu32)), || format!("C01:{}:{}:representation", T::NAME, name), || format!("{name}: result encodes to {:x} but equals(canonical) / iszero(result - canonical) = {:?}", exp, r));
        }
    };
    for (k, (el, iv)) in e.iter().zip(i.iter()).enumerate() {
        if k < 2 {
            chk("ctor", Ok(*el), iv.clone());
        }
    }
    chk("add", guard(|| T::add(a, b, f)), pf::add(ia, ib, &q));
    chk("sub", guard(|| T::sub(a, b, f)), pf::sub(ia, ib, &q));
    chk("mul", guard(|| T::mul(a, b, f)), pf::mul(ia, ib, &q));
    chk("neg", guard(|| T::neg(a, f)), pf::neg(ia, &q));
    chk("square", guard(|| T::square(a, f)), pf::mul(ia, ia, &q));
    chk("xsquare", guard(|| T::xsquare(a, c.n)), pf::pow(ia, &(BigUint::one() << c.n), &q));
    chk("half", guard(|| T::half(a)), pf::half(ia, &q));
    for k in [2u32, 4, 8, 16, 32] {
        chk("mulk", guard(|| T::mulk(a, k, f)), pf::mul(ia, &BigUint::from(k), &q));
    }
    if T::HAS_MUL3 {
        chk("mul3", guard(|| T::mul3(a)), pf::mul(ia, &BigUint::from(3u32), &q));
    }
    if T::HAS_MUL_SMALL {
        let x = if T::NAME == "GFsecp256k1" { (c.x as u16) as u32 } else { c.x };
        chk("mul_small", guard(|| T::mul_small(a, c.x, f)), pf::mul(ia, &BigUint::from(x), &q));
        // fixed battery around the sizes at which implementations switch between a single-word and a double-word product
        for m in [7656u32, 7657, 8191, 8192, 0xFFFF, 0x1_0000, 0xFFFF_FFFF] {
            let mm = if T::NAME == "GFsecp256k1" { (m as u16) as u32 } else { m };
            chk("mul_small", guard(|| T::mul_small(a, m, f)), pf::mul(ia, &BigUint::from(mm), &q));
        }
    }
    // sums of results remain valid operands
    chk("add_of_products", guard(|| T::add(T::mul(a, b, 0), T::square(b, 0), 0)), pf::add(&pf::mul(ia, ib, &q), &pf::mul(ib, ib, &q), &q));
    // representation independence: x, x + k*q through the raw constructor
    if let Src::Limbs { l, kind } = &c.v[0].src {
        if c.v[0].chain.is_empty() {
            let x = pf::from_limbs_le(l) + &q * (1 + (c.k % 3) as u32);
            if x.bits() <= 64 * T::NLIMBS as u64 {
                let a2 = T::from_limbs(&pf::to_limbs_le(&x, T::NLIMBS), *kind);
                rep_shift = T::RAW_UNREDUCED;
                chk("rep:mul", guard(|| T::mul(a2, b, f)), pf::mul(ia, ib, &q));
                chk("rep:add", guard(|| T::add(a2, b, f)), pf::add(ia, ib, &q));
                chk("rep:sub_rev", guard(|| T::sub(b, a2, f)), pf::sub(ib, ia, &q));
                chk("rep:square", guard(|| T::square(a2, f)), pf::mul(ia, ia, &q));
                chk("rep:half", guard(|| T::half(a2)), pf::half(ia, &q));
                chk("rep:neg", guard(|| T::neg(a2, f)), pf::neg(ia, &q));
            }
        }
    }
    drop(chk);
    if rep_shift {
        acc.nt(true);
        acc.tag("rep_shifted_by_q");
    }
    acc.done()
}

impl C01 {
    pub fn new() -> Self {
        let infos = all_infos();
        let mut table: Vec<fn(&PCase) -> Outcome> = Vec::new();
        macro_rules! push {
            ($t:ty) => {
                table.push(check_p::<$t> as fn(&PCase) -> Outcome);
            };
        }
        crate::for_all_pf!(push);
        let mut classes = Vec::new();
        for (ti, info) in infos.iter().enumerate() {
            for (lc, lname) in LIMB_CLASSES.iter().enumerate() {
                classes.push((cls(leak(format!("{}/{}", info.name, lname)), 1200, 120_000), ClassKind::P { ty: ti, limb_class: lc, chain: false, mixed: false }));
            }
            classes.push((cls(leak(format!("{}/chain", info.name)), 3000, 300_000), ClassKind::P { ty: ti, limb_class: 0, chain: true, mixed: true }));
            classes.push((cls(leak(format!("{}/mixed_sources", info.name)), 3000, 300_000), ClassKind::P { ty: ti, limb_class: 0, chain: false, mixed: true }));
        }
        for (i, n) in binfield::B_CLASSES.iter().enumerate() {
            classes.push((cls(leak(format!("GFb127/{}", n)), 4000, 400_000), ClassKind::B127(i)));
            classes.push((cls(leak(format!("GFb254/{}", n)), 4000, 400_000), ClassKind::B254(i)));
        }
        C01 { infos, table, classes }
    }
}

fn is_gf255_idx(name: &str) -> Option<usize> {
    ["GF25519", "GF255e", "GF255s", "GF255<31>", "GF255<921>", "GF255<32715>"].iter().position(|n| *n == name)
}

impl Property for C01 {
    type Case = Case;
    fn id(&self) -> &'static str {
        "C01"
    }
    fn rule(&self) -> String {
        "Each case = one field type + 4 generated operands (raw limb patterns incl. values >= q, boundary lattice, integer and byte constructors, optional operation chains) + op parameters; the whole operation battery (constructors, + - * neg square xsquare half mul2..32 mul3 mul_small, noreduce combos, x vs x+kq representation independence; binary fields: + * square xsquare mul_sb mul_b div_z div_z2 mul_u mul_u1 mul_b127 mul_selfphi) is compared with big-integer / polynomial arithmetic on the constructor arguments through encode(). A case is non-trivial when an operand is non-canonical (raw value >= q, negative integer, top bit set in a binary limb), within 3 of 0/q/2q, has an all-zero/all-one limb, or was produced by an operation chain. distinct = distinct case hash.".into()
    }
    fn classes(&self) -> Vec<ClassSpec> {
        self.classes.iter().map(|c| c.0.clone()).collect()
    }
    fn strategy(&self, class: usize) -> BoxedStrategy<Case> {
        match self.classes[class].1.clone() {
            ClassKind::P { ty, limb_class, chain, mixed } => {
                let info = &self.infos[ty];
                let q = info.modulus.clone();
                let n = info.nlimbs;
                let mq = info.mq_hint;
                let first = if mixed && !chain {
                    gen::any_fv(&q, n, mq)
                } else {
                    gen::fv_strategy(&q, n, limb_class, mq, chain)
                };
                let others = prop::collection::vec(gen::any_fv(&q, n, mq), 3);
                let name = info.name.to_string();
                let xs = prop_oneof![
                    2 => prop::sample::select(vec![0u32, 1, 2, 21, 7656, 7657, 0xFFFF, 0x10000, 0x7FFFFFFF, 0x80000000, 0xFFFFFFFF]),
                    // curve constants that the library multiplies by (A24 of X25519 / X448, Edwards d, jq255 / decaf constants, ...)
                    1 => prop::sample::select(vec![3u32, 7, 11, 77, 343, 19, 38, 977, 39081, 39082, 121665, 121666, 156326, 486662, 8191, 8192, 65535]),
                    1 => any::<u32>(),
                ];
                // 1 case in 5: the first operand sits on the carry boundaries of the multiplication by x
                let carry = prop_oneof![4 => Just(None), 1 => (prop::collection::vec(any::<u32>(), 9), prop::collection::vec(any::<u8>(), 9), 0u8..5).prop_map(Some)];
                let ns = prop_oneof![3 => 0u32..8, 1 => 8u32..300];
                let nl = n;
                let qq = q.clone();
                // 1 case in 5: the second operand is tied to the first one so that a result (or the raw, unreduced sum) is a
                // boundary value: raw a + raw b = 2^(64n) - 1 + d; a + b = d mod q; a - b = 0 through another representative;
                // a * b = 1; b = a + d
                let related = prop_oneof![4 => Just(None), 1 => (0u8..5, 0u32..3, 1u32..4).prop_map(Some)];
                (first, others, ns, xs, any::<u8>(), any::<u8>(), carry, related)
                    .prop_map(move |(a, mut o, n, x, form, k, carry, related)| {
                        let a = match carry {
                            // widths 3, 4: the operand is t / 2^(64n) mod q with t = ceil(j*q/x) + d - 1 (j = 1..3): if the type keeps
                            // its values in Montgomery representation (R = 2^(64n)), the internal value times x lands on a multiple of q
                            Some((js, ds, w)) if x >= 2 && w >= 3 => {
                                let j = 1 + js[0] % 3;
                                let t = (&qq * j + (x - 1)) / x + (ds[0] % 4) as u32;
                                let t = if t.is_zero() { t } else { t - 1u32 };
                                let rinv = pf::inv(&((BigUint::one() << (64 * nl)) % &qq), &qq);
                                gen::FV::limbs(gen::limbs_of(&(t * rinv % &qq), nl))
                            }
                            Some((js, ds, w)) if x >= 2 => gen::FV::limbs(gen::carry_limbs(x, nl, &js, &ds, w)),
                            _ => a,
                        };
                        // 1 case in 8: the first operand is the direct output of a unary operation (mul_small by a large
                        // constant, mul2..32, square, half, mul3) on another value: the internal limbs are then at the top of
                        // the range that operation can leave, which is what the next operation has to cope with
                        let a = if k % 8 == 5 && a.chain.len() < 3 { let mut a = a; a.chain.push((6 + (form % 5), o[2].src.clone())); a } else { a };
                        if let Some((mode, d, kq)) = related {
                            let full = BigUint::one() << (64 * nl);
                            let raw = match &a.src { Src::Limbs { l, .. } if a.chain.is_empty() => pf::from_limbs_le(l), _ => gen::int_of_fv(&a, &qq) };
                            let b = match mode {
                                0 => (&full - 1u32 - &raw + d) % &full,
                                1 => { let t = &qq * kq + d; if t >= raw { (t - &raw) % &full } else { (&qq * (kq + 1) + d + &full - &raw) % &full } }
                                2 => { let t = &raw + &qq * kq; if t < full { t } else if raw >= &qq * kq { &raw - &qq * kq } else { raw.clone() } }
                                3 => { let r = &raw % &qq; if r.is_zero() { r } else { (pf::inv(&r, &qq) + d) % &qq } }
                                _ => (&raw + d) % &full,
                            };
                            o[0] = gen::FV::limbs(gen::limbs_of(&b, nl));
                        }
                        let mut v = vec![a];
                        v.append(&mut o);
                        Case::P(PCase { ty: ty as u16, tyname: name.clone(), v, n, x, form, k })
                    })
                    .boxed()
            }
            ClassKind::B127(c) => binfield::b127_strategy(c).prop_map(Case::B127).boxed(),
            ClassKind::B254(c) => binfield::b254_strategy(c).prop_map(Case::B254).boxed(),
        }
    }
    fn check(&self, case: &Case) -> Outcome {
        match case {
            Case::P(c) => {
                let ty = c.ty as usize;
                if ty >= self.table.len() || self.infos[ty].name != c.tyname {
                    // replay file from another configuration: locate by name
                    if let Some(i) = self.infos.iter().position(|x| x.name == c.tyname) {
                        let mut c2 = c.clone();
                        c2.ty = i as u16;
                        return self.check(&Case::P(c2));
                    }
                    return Outcome::pass(false);
                }
                let mut o = (self.table[ty])(c);
                if !o.is_fail() {
                    if let Some(gi) = is_gf255_idx(&c.tyname) {
                        let mut acc = Acc::new();
                        use crate::fieldapi::t::*;
                        match gi {
                            0 => check_nr::<GF25519>(c, &mut acc),
                            1 => check_nr::<GF255e>(c, &mut acc),
                            2 => check_nr::<GF255s>(c, &mut acc),
                            3 => check_nr::<GF255_31>(c, &mut acc),
                            4 => check_nr::<GF255_921>(c, &mut acc),
                            _ => check_nr::<GF255_32715>(c, &mut acc),
                        }
                        let o2 = acc.done();
                        o.evals += o2.evals;
                        if o2.is_fail() {
                            o.verdict = o2.verdict;
                            o.nontrivial = true;
                        }
                    }
                }
                o
            }
            Case::B127(c) => binfield::check_b127_arith(c),
            Case::B254(c) => binfield::check_b254_arith(c),
        }
    }
}
