//! C14 - X25519 and X448 compute the RFC 7748 functions on all inputs.

use crate::engine::*;
use num_bigint::BigUint;
use num_traits::One;
use proptest::prelude::*;
use refmodel::pf;
use refmodel::schemes;
use serde::{Deserialize, Serialize};

#[derive(Clone, Debug, Hash, Serialize, Deserialize)]
pub struct Case {
    pub big: bool,
    pub u: Vec<u8>,
    pub k: Vec<u8>,
    pub k2: Vec<u8>,
}

pub struct C14;

fn run(big: bool, u: &[u8], k: &[u8]) -> Vec<u8> {
    if big {
        crrl::x448::x448(u.try_into().unwrap(), k.try_into().unwrap()).to_vec()
    } else {
        crrl::x25519::x25519(u.try_into().unwrap(), k.try_into().unwrap()).to_vec()
    }
}
fn run_base(big: bool, k: &[u8]) -> Vec<u8> {
    if big { crrl::x448::x448_base(k.try_into().unwrap()).to_vec() } else { crrl::x25519::x25519_base(k.try_into().unwrap()).to_vec() }
}
fn model(big: bool, u: &[u8], k: &[u8]) -> Vec<u8> {
    if big { schemes::x448(k, u) } else { schemes::x25519(k, u) }
}

fn u_strategy(big: bool) -> BoxedStrategy<Vec<u8>> {
    let l = if big { 56 } else { 32 };
    let p = if big { (BigUint::one() << 448) - (BigUint::one() << 224) - 1u32 } else { (BigUint::one() << 255) - 19u32 };
    let full = BigUint::one() << (8 * l);
    let mut fixed: Vec<BigUint> = Vec::new();
    for d in 0u32..4 {
        fixed.push(BigUint::from(d));
        fixed.push(&p - 1u32 - d);
        fixed.push(&p + d);
        fixed.push(&full - 1u32 - d);
        fixed.push(&p * 2u32 + d);
        fixed.push((BigUint::one() << (8 * l - 1)) + d);
        fixed.push((BigUint::one() << (8 * l - 1)) - 1u32 - d);
    }
    if !big {
        // the known low-order u values of Curve25519 (and their non-canonical forms)
        for h in ["e0eb7a7c3b41b8ae1656e3faf19fc46ada098deb9c32b1fd866205165f49b800", "5f9c95bca3508c24b1d0b1559c83ef5b04445cc4581c8e86d8224eddd09f1157"] {
            let x = pf::from_le(&refmodel::unhex(h));
            fixed.push(x.clone());
            fixed.push(&x + &p);
            fixed.push(&x + (BigUint::one() << 255));
        }
        fixed.push(BigUint::from(9u32) + &p);
        fixed.push(BigUint::from(9u32) + (BigUint::one() << 255));
    } else {
        fixed.push(BigUint::from(5u32) + &p);
    }
    let fixed: Vec<Vec<u8>> = fixed.into_iter().filter(|x| x < &full).map(|x| pf::to_le(&x, l)).collect();
    prop_oneof![
        3 => prop::collection::vec(any::<u8>(), l),
        2 => prop::sample::select(fixed),
        1 => (0usize..8 * l).prop_map(move |b| { let mut v = vec![0u8; l]; v[b / 8] = 1 << (b % 8); v }),
        1 => prop::collection::vec(prop::sample::select(vec![0u8, 0xFF, 0x80, 0x7F]), l),
        // u = t/4 (or t/2, t) mod p where the 64-, 32- or 51-bit units of t sit on the carry boundaries of the multiplication by
        // the ladder constant (a24 = 121665 / 39081, and a24 + 1): with the top scalar bit set by clamping, the first ladder
        // step computes E = (u+1)^2 - (u-1)^2 = 4u and multiplies it by that constant
        2 => (prop::sample::select(if big { vec![39081u32, 39082, 156326] } else { vec![121665u32, 121666, 486662] }), prop::collection::vec(any::<u32>(), 9), prop::collection::vec(any::<u8>(), 9), 0u8..3, prop::sample::select(vec![4u32, 4, 2, 1]))
            .prop_map(move |(x, js, ds, w, div)| {
                let p = if big { (BigUint::one() << 448) - (BigUint::one() << 224) - 1u32 } else { (BigUint::one() << 255) - 19u32 };
                let t = pf::from_limbs_le(&crate::gen::carry_limbs(x, l / 8, &js, &ds, w)) % &p;
                let u = pf::mul(&t, &pf::inv(&BigUint::from(div), &p), &p);
                pf::to_le(&u, l)
            }),
    ]
    .boxed()
}

fn k_strategy(big: bool) -> BoxedStrategy<Vec<u8>> {
    let l = if big { 56 } else { 32 };
    prop_oneof![
        3 => prop::collection::vec(any::<u8>(), l),
        1 => Just(vec![0u8; l]),
        1 => Just(vec![0xFFu8; l]),
        1 => (0usize..8 * l).prop_map(move |b| { let mut v = vec![0u8; l]; v[b / 8] = 1 << (b % 8); v }),
        1 => (0usize..8 * l).prop_map(move |b| { let mut v = vec![0xFFu8; l]; v[b / 8] ^= 1 << (b % 8); v }),
    ]
    .boxed()
}

impl Property for C14 {
    type Case = Case;
    fn id(&self) -> &'static str {
        "C14"
    }
    fn rule(&self) -> String {
        "Each case = (u string, scalar string, second scalar) for X25519 or X448: u from {uniform, 0..3, p-1-d, p+d, 2p+d, 2^255+-d, 2^256-1-d, the known low-order u values and their non-canonical forms u+p / u+2^255, single bits, byte fills, u = t/4 with the limbs of t on the carry boundaries of the multiplication by the ladder constant}, scalars from {uniform, all-zero, all-ones, single bit set / cleared}. Oracle: the RFC 7748 ladder on big integers (clamping, top bit of the X25519 u ignored, reduction of non-canonical u); x*_base(k) == x*(9|5, k); DH symmetry x(x_base(k2), k) == x(x_base(k), k2). Non-trivial: u non-canonical / low order / on the twist boundary set, or a structured scalar. distinct = distinct case hash.".into()
    }
    fn shard_size(&self) -> u64 {
        100
    }
    fn classes(&self) -> Vec<ClassSpec> {
        vec![cls("x25519", 30_000, 600_000), cls("x448", 10_000, 200_000)]
    }
    fn strategy(&self, class: usize) -> BoxedStrategy<Case> {
        let big = class == 1;
        (u_strategy(big), k_strategy(big), k_strategy(big)).prop_map(move |(u, k, k2)| Case { big, u, k, k2 }).boxed()
    }
    fn check(&self, c: &Case) -> Outcome {
        let mut acc = Acc::new();
        let name = if c.big { "x448" } else { "x25519" };
        let l = if c.big { 56 } else { 32 };
        let p = if c.big { (BigUint::one() << 448) - (BigUint::one() << 224) - 1u32 } else { (BigUint::one() << 255) - 19u32 };
        let ui = pf::from_le(&c.u);
        let structured_k = c.k.iter().all(|&b| b == 0 || b == 0xFF) || c.k.iter().map(|b| b.count_ones()).sum::<u32>() <= 2;
        acc.nt(ui >= p || ui < BigUint::from(10u32) || structured_k);
        let exp = model(c.big, &c.u, &c.k);
        let got = guard(|| run(c.big, &c.u, &c.k));
        if exp.iter().all(|&b| b == 0) {
            acc.tag("all_zero_output");
            acc.nt(true);
        }
        acc.check(got.as_ref().ok() == Some(&exp), || format!("C14:{name}:general"), || format!("{name}(u={}, k={}) -> {:?} expected {}", hex(&c.u), hex(&c.k), got.as_ref().map(|b| hex(b)), hex(&exp)));
        let mut g = vec![0u8; l];
        g[0] = if c.big { 5 } else { 9 };
        let expb = model(c.big, &g, &c.k);
        let gotb = guard(|| run_base(c.big, &c.k));
        acc.check(gotb.as_ref().ok() == Some(&expb), || format!("C14:{name}:base"), || format!("{name}_base(k={}) -> {:?} expected {}", hex(&c.k), gotb.as_ref().map(|b| hex(b)), hex(&expb)));
        // DH symmetry through the library itself
        let sym = guard(|| {
            let (a, b) = (run_base(c.big, &c.k), run_base(c.big, &c.k2));
            (run(c.big, &b, &c.k), run(c.big, &a, &c.k2))
        });
        acc.check(matches!(&sym, Ok((x, y)) if x == y), || format!("C14:{name}:dh_symmetry"), || format!("shared secrets differ: {:?}", sym.as_ref().map(|(x, y)| (hex(x), hex(y)))));
        acc.done()
    }
}
