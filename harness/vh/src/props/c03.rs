//! C03 - point addition, doubling and negation implement the complete group law.

use crate::engine::*;
use crate::ftypes::leak;
use crate::points::*;
use crate::with_group;
use proptest::prelude::*;
use serde::{Deserialize, Serialize};

#[derive(Clone, Debug, Hash, Serialize, Deserialize)]
pub struct Case {
    pub g: u8,
    pub p: PV,
    pub q: PV,
    pub r: PV,
    /// relation imposed on q: 0 independent, 1 q = p, 2 q = -p, 3 q = 2p, 4 q = -2p, 5 q = p + torsion (Edwards), 6 q = neutral
    pub rel: u8,
    pub n: u32,
    pub k: u64,
    pub form: u8,
}

pub struct C03 {
    classes: Vec<(ClassSpec, usize, usize, bool, u8)>,
}

impl C03 {
    pub fn new() -> Self {
        let mut classes = Vec::new();
        for g in 0..NGROUPS {
            for (pc, pn) in PSRC_CLASSES.iter().enumerate() {
                classes.push((cls(leak(format!("{}/{}", GROUP_NAMES[g], pn)), 150, 15_000), g, pc, false, 0));
            }
            classes.push((cls(leak(format!("{}/chain", GROUP_NAMES[g])), 400, 40_000), g, 3, true, 0));
            for rel in 1..=6u8 {
                if rel == 5 && !is_edwards(g) {
                    continue;
                }
                classes.push((cls(leak(format!("{}/related{}", GROUP_NAMES[g], rel)), 120, 12_000), g, 3, false, rel));
            }
        }
        C03 { classes }
    }
}

fn related<G: Grp>(p: G, rel: u8, q: G, t: G) -> G {
    match rel {
        1 => p,
        2 => G::neg(p, 0),
        3 => G::double(p, 0),
        4 => G::neg(G::double(p, 0), 0),
        5 => G::add(p, t, 0),
        6 => G::neutral(),
        _ => q,
    }
}

fn check_g<G: Grp>(c: &Case) -> Outcome {
    use refmodel::curves::Pt;
    let mut acc = Acc::new();
    let g = G::G;
    let r = rg(g);
    let name = GROUP_NAMES[g];
    let f = c.form;
    let p: G = build_pv(&c.p);
    let rp = ref_pv(g, &c.p);
    let (tq, rtq): (G, Pt) = if c.rel == 5 && is_edwards(g) {
        let t = PSrc::Torsion((c.k % 251) as u8);
        (build_src(&t), ref_src(g, &t))
    } else {
        (G::neutral(), r.neutral())
    };
    let q: G = related(p, c.rel, build_pv(&c.q), tq);
    let rq = match c.rel {
        1 => rp.clone(),
        2 => r.neg(&rp),
        3 => r.double(&rp),
        4 => r.neg(&r.double(&rp)),
        5 => r.add(&rp, &rtq),
        6 => r.neutral(),
        _ => ref_pv(g, &c.q),
    };
    let z: G = build_pv(&c.r);
    let rz = ref_pv(g, &c.r);
    let (ep, eq) = (r.encode(&rp), r.encode(&rq));
    let exceptional = c.rel != 0 || ep == eq || ep == r.encode(&r.neg(&rq)) || r.is_neutral(&rp) || r.is_neutral(&rq);
    let nonaffine = !c.p.chain.is_empty() || !c.q.chain.is_empty() || matches!(c.p.src, PSrc::Proj(..) | PSrc::Mixed(..) | PSrc::Rep(..) | PSrc::Map(..) | PSrc::Torsion(..));
    acc.nt(exceptional || nonaffine);
    if exceptional {
        acc.tag("exceptional_relation");
    }
    if nonaffine {
        acc.tag("non_affine_or_special_representative");
    }
    let mut chk = |what: &'static str, got: Result<G, String>, exp: &Pt| {
        let e = got.and_then(|x| guard(|| x.encode()));
        let ee = r.encode(exp);
        acc.check(e.as_ref().ok() == Some(&ee), || format!("C03:{name}:{what}"), || format!("{what}: got {:?} expected {}", e.as_ref().map(|b| hex(b)), hex(&ee)));
    };
    // operands themselves (representation reached through the API must encode to the reference value)
    chk("operand", Ok(p), &rp);
    chk("operand", Ok(q), &rq);
    chk("add", guard(|| G::add(p, q, f)), &r.add(&rp, &rq));
    chk("add_commuted", guard(|| G::add(q, p, f >> 1)), &r.add(&rp, &rq));
    chk("sub", guard(|| G::sub(p, q, f)), &r.sub(&rp, &rq));
    chk("neg", guard(|| G::neg(p, f)), &r.neg(&rp));
    chk("double", guard(|| G::double(p, f)), &r.double(&rp));
    let mut xd = rp.clone();
    for _ in 0..c.n {
        xd = r.double(&xd);
    }
    chk("xdouble", guard(|| G::xdouble(p, c.n, f)), &xd);
    chk("mul_small", guard(|| G::mul_small(p, c.k, f)), &r.mul(&num_bigint::BigUint::from(c.k), &rp));
    // results remain valid operands: (p + q) + z, p + (q + z), (p - q) + q, 2p - p
    let s = r.add(&r.add(&rp, &rq), &rz);
    chk("assoc_left", guard(|| G::add(G::add(p, q, f), z, f)), &s);
    chk("assoc_right", guard(|| G::add(p, G::add(q, z, f), f)), &s);
    chk("sub_add", guard(|| G::add(G::sub(p, q, f), q, f)), &rp);
    chk("double_sub", guard(|| G::sub(G::double(p, f), p, f)), &rp);
    chk("add_neg_self", guard(|| G::add(p, G::neg(p, f), f)), &r.neutral());
    drop(chk);
    // equals / isneutral consistent with the reference
    let eqexp = if ep == eq { 0xFFFFFFFFu32 } else { 0 };
    let got = guard(|| G::equals(p, q));
    acc.check(got.as_ref().ok() == Some(&eqexp), || format!("C03:{name}:equals"), || format!("equals(p,q) -> {:?} expected {eqexp:08x}", got));
    let sum_neutral = if r.is_neutral(&r.add(&rp, &rq)) { 0xFFFFFFFFu32 } else { 0 };
    let got = guard(|| G::isneutral(G::add(p, q, f)));
    acc.check(got.as_ref().ok() == Some(&sum_neutral), || format!("C03:{name}:isneutral"), || format!("isneutral(p+q) -> {:?} expected {sum_neutral:08x}", got));
    acc.done()
}

impl Property for C03 {
    type Case = Case;
    fn id(&self) -> &'static str {
        "C03"
    }
    fn rule(&self) -> String {
        "Each case = group + three point values built through the public API (neutral incl. (X:Y:0), +-B, small multiples, uniform elements sampled on the reference side, torsion / mixed-order points on the Edwards curves, scaled projective coordinates on P-256/secp256k1, one_way_map / hash_to_curve outputs, torsion-shifted representatives of ristretto255/decaf448 through the hooks, results of 1-3 chained operations, pre-images S/2^n, S/k, S-p, p-S of small-coordinate points S so that an operation's result is the special point) with an imposed relation (q = p, -p, 2p, -2p, p+T, neutral, or independent); +, -, neg, double, xdouble(n<=70), mul_small(u64), associativity and cancellation compositions, equals and isneutral are compared with the affine reference law through encodings. Non-trivial: an exceptional relation among operands (equal, opposite, neutral, torsion difference) or a non-affine / special representative. distinct = distinct case hash.".into()
    }
    fn shard_size(&self) -> u64 {
        20
    }
    fn shrink_iters(&self) -> u32 {
        200
    }
    fn classes(&self) -> Vec<ClassSpec> {
        self.classes.iter().map(|c| c.0.clone()).collect()
    }
    fn strategy(&self, class: usize) -> BoxedStrategy<Case> {
        let (_, g, pc, chain, rel) = self.classes[class].clone();
        let ks = prop_oneof![
            3 => prop::sample::select(vec![0u64, 1, 2, 3, 4, 5, 7, 8, 16, 31, 32, 33, 255, 256, 65535, 65536, (1 << 32) - 1, 1 << 32, (1 << 63) - 1, 1 << 63, u64::MAX - 1, u64::MAX]),
            1 => any::<u64>(),
            1 => (0u32..64, -1i64..=1).prop_map(|(s, d)| (1u64 << s).wrapping_add(d as u64)),
        ];
        // 1 case in 5: an operand is the pre-image of a special point S (small / zero coordinate) under one of the operations,
        // so that the *result* of the operation (rather than its input) is the special point: p = S/2^n, p = S/k, q = S - p, q = p - S
        let target = prop_oneof![4 => Just(None), 1 => (any::<usize>(), 0u8..4).prop_map(Some)];
        (pv_strategy(g, pc, chain), any_pv(g), any_pv(g), prop_oneof![3 => 0u32..6, 1 => 6u32..70], ks, any::<u8>(), target)
            .prop_map(move |(mut p, mut q, r, n, k, form, target)| {
                if let Some((idx, mode)) = target {
                    let rgp = rg(g);
                    let small = small_coord_encodings(g);
                    if let Some(s) = small.get(idx % small.len().max(1)).and_then(|e| rgp.decode(e)) {
                        let ord = rgp.order();
                        let enc = |x: &refmodel::curves::Pt| PV { src: PSrc::Enc(rgp.encode(x)), chain: vec![] };
                        match mode {
                            0 | 1 => {
                                let m = if mode == 0 { num_bigint::BigUint::from(1u32) << n } else { num_bigint::BigUint::from(k) } % &ord;
                                if let Some(inv) = refmodel::pf::inv_euclid(&m, &ord) {
                                    let pre = rgp.mul(&inv, &s);
                                    // (on the Edwards curves S may have a torsion component: keep the pre-image only when it is one)
                                    if rgp.mul(&m, &pre) == s && rgp.decode(&rgp.encode(&pre)).is_some() { p = enc(&pre); }
                                }
                            }
                            2 if rel == 0 => { let d = rgp.sub(&s, &ref_pv(g, &p)); if rgp.decode(&rgp.encode(&d)).is_some() { q = enc(&d); } }
                            3 if rel == 0 => { let d = rgp.sub(&ref_pv(g, &p), &s); if rgp.decode(&rgp.encode(&d)).is_some() { q = enc(&d); } }
                            _ => {}
                        }
                    }
                }
                Case { g: g as u8, p, q, r, rel, n, k, form }
            })
            .boxed()
    }
    fn check(&self, c: &Case) -> Outcome {
        with_group!(c.g as usize, check_g(c))
    }
}
