//! C09 - jq255e / jq255s / GLS254 Schnorr signatures and ECDH behave as specified.

use crate::engine::*;
use crate::ftypes::leak;
use crate::points::{enc_strategy, rg};
use num_bigint::BigUint;
use proptest::prelude::*;
use refmodel::pf;
use refmodel::schemes::Schnorr;
use serde::{Deserialize, Serialize};
use std::sync::OnceLock;

/// Deterministic RNG fed from a tape (part of the generated case).
pub struct TapeRng {
    pub tape: Vec<u8>,
    pub pos: usize,
}
impl crrl::RngCore for TapeRng {
    fn next_u32(&mut self) -> u32 {
        let mut b = [0u8; 4];
        self.fill_bytes(&mut b);
        u32::from_le_bytes(b)
    }
    fn next_u64(&mut self) -> u64 {
        let mut b = [0u8; 8];
        self.fill_bytes(&mut b);
        u64::from_le_bytes(b)
    }
    fn fill_bytes(&mut self, dest: &mut [u8]) {
        for d in dest.iter_mut() {
            *d = if self.tape.is_empty() { 0 } else { self.tape[self.pos % self.tape.len()].wrapping_add((self.pos / self.tape.len()) as u8) };
            self.pos += 1;
        }
    }
    fn try_fill_bytes(&mut self, dest: &mut [u8]) -> Result<(), crrl::RngError> {
        self.fill_bytes(dest);
        Ok(())
    }
}
impl crrl::CryptoRng for TapeRng {}

#[derive(Clone, Debug, Hash, Serialize, Deserialize)]
pub enum Case {
    Sign { g: u8, sk: Vec<u8>, hname: String, data: Vec<u8>, mode: u8, seed: Vec<u8>, mutation: u8, pos: u16, val: u8 },
    Raw { g: u8, pk: Vec<u8>, sig: Vec<u8>, hname: String, data: Vec<u8> },
    Ecdh { g: u8, sk1: Vec<u8>, sk2: Vec<u8>, sk3: Vec<u8>, peer_mode: u8, peer: Vec<u8> },
}

fn schemes() -> &'static [Schnorr; 3] {
    static S: OnceLock<[Schnorr; 3]> = OnceLock::new();
    S.get_or_init(|| [refmodel::schemes::schnorr_jq255e(), refmodel::schemes::schnorr_jq255s(), refmodel::schemes::schnorr_gls254()])
}
const NAMES: [&str; 3] = ["jq255e", "jq255s", "gls254"];

fn sk_of(g: u8, b: &[u8]) -> BigUint {
    let n = schemes()[g as usize].group.order();
    (pf::from_le(b) % (&n - 1u32)) + 1u32
}

macro_rules! per_group {
    ($g:expr, $m:ident, $body:expr) => {
        match $g {
            0 => { use crrl::jq255e as $m; $body }
            1 => { use crrl::jq255s as $m; $body }
            _ => { use crrl::gls254 as $m; $body }
        }
    };
}

fn crrl_keypair(g: u8, sk: &BigUint) -> Vec<u8> {
    let b = pf::to_le(sk, 32);
    per_group!(g, m, m::PrivateKey::decode(&b).expect("private key in range").public_key.encode().to_vec())
}

fn crrl_sign(g: u8, sk: &BigUint, hname: &str, data: &[u8], mode: u8, seed: &[u8]) -> Vec<u8> {
    let b = pf::to_le(sk, 32);
    per_group!(g, m, {
        let k = m::PrivateKey::decode(&b).unwrap();
        match mode % 3 {
            0 => k.sign(hname, data).to_vec(),
            1 => k.sign_seeded(seed, hname, data).to_vec(),
            _ => { let mut rng = TapeRng { tape: seed.to_vec(), pos: 0 }; k.sign_randomized(&mut rng, hname, data).to_vec() }
        }
    })
}

fn crrl_verify(g: u8, pk: &[u8], sig: &[u8], hname: &str, data: &[u8]) -> Option<bool> {
    per_group!(g, m, Some(m::PublicKey::decode(pk)?.verify(sig, hname, data)))
}

fn crrl_ecdh(g: u8, sk: &BigUint, peer: &[u8]) -> (Vec<u8>, u32) {
    let b = pf::to_le(sk, 32);
    per_group!(g, m, { let (k, s) = m::PrivateKey::decode(&b).unwrap().ECDH(peer); (k.to_vec(), s) })
}

fn compare(acc: &mut Acc, g: u8, pk: &[u8], sig: &[u8], hname: &str, data: &[u8]) {
    let sch = &schemes()[g as usize];
    let q = sch.group.decode(pk).filter(|p| !sch.group.is_neutral(p));
    let (exp, reason) = if q.is_none() { (false, "bad_public_key") } else { sch.verify(pk, sig, hname, data) };
    acc.tag(match reason { "valid" => "ref_accepts", "bad_public_key" => "ref_rejects_public_key", "bad_length" => "ref_rejects_length", "s_not_canonical" => "ref_rejects_s", _ => "ref_rejects_challenge" });
    let got = guard(|| crrl_verify(g, pk, sig, hname, data));
    let ok = match (&got, q.is_some()) {
        (Ok(None), false) => true,
        (Ok(Some(b)), true) => *b == exp,
        _ => false,
    };
    acc.check(ok, || format!("C09:{}:verify:{}", NAMES[g as usize], if got.is_err() { "panic" } else if exp { "rejects_valid" } else { "accepts_invalid" }), || format!("verify(pk={}, sig={}, {hname:?}, data={}) -> {:?}; reference {} ({})", hex(pk), hex(sig), hex(data), got, exp, reason));
}

fn check(case: &Case) -> Outcome {
    let mut acc = Acc::new();
    acc.nt(true);
    match case {
        Case::Sign { g, sk, hname, data, mode, seed, mutation, pos, val } => {
            let sch = &schemes()[*g as usize];
            let name = NAMES[*g as usize];
            let ski = sk_of(*g, sk);
            let pk = match guard(|| crrl_keypair(*g, &ski)) {
                Ok(p) => p,
                Err(e) => return Outcome::fail(format!("C09:{name}:keypair:{e}"), "key pair construction panicked"),
            };
            let exp_pk = sch.group.encode(&sch.group.mul(&ski, &sch.group.base()));
            acc.check(pk == exp_pk, || format!("C09:{name}:public_key"), || format!("public key of {:x}: {} expected {}", ski, hex(&pk), hex(&exp_pk)));
            let sig = match guard(|| crrl_sign(*g, &ski, hname, data, *mode, seed)) {
                Ok(s) => s,
                Err(e) => return Outcome::fail(format!("C09:{name}:sign:{e}"), "signing panicked"),
            };
            // deterministic for a given (key, seed / rng tape, message)
            let again = guard(|| crrl_sign(*g, &ski, hname, data, *mode, seed));
            acc.check(again.as_ref().ok() == Some(&sig), || format!("C09:{name}:sign:nondeterministic"), || "two identical calls differ".into());
            let mut sig2 = sig.clone();
            let mut data2 = data.clone();
            let mut hname2 = hname.clone();
            let mut pk2 = pk.clone();
            match mutation % 9 {
                0 => {}
                1 => { let p = *pos as usize % 384; sig2[p / 8] ^= 1 << (p % 8); }
                2 => { if data2.is_empty() { data2.push(*val) } else { let p = *pos as usize % data2.len(); data2[p] ^= *val | 1; } }
                3 => { hname2 = if hname.is_empty() { "sha256".into() } else { String::new() }; }
                4 => { // s + r (non-canonical) when it fits in 32 bytes
                    let s = pf::from_le(&sig2[16..]) + sch.group.order();
                    if s.bits() <= 256 { let e = pf::to_le(&s, 32); sig2[16..].copy_from_slice(&e); }
                }
                5 => { sig2.truncate(47 - (*pos as usize % 3)); }
                6 => { sig2.push(*val); }
                7 => { let p = *pos as usize % 256; pk2[p / 8] ^= 1 << (p % 8); }
                _ => { // tag / data boundary shift: move one byte from the tag to the data
                    if !hname2.is_empty() { let c = hname2.pop().unwrap(); let mut d = vec![c as u8]; d.extend_from_slice(&data2); data2 = d; } else { data2.push(0); }
                }
            }
            compare(&mut acc, *g, &pk2, &sig2, &hname2, &data2);
        }
        Case::Raw { g, pk, sig, hname, data } => compare(&mut acc, *g, pk, sig, hname, data),
        Case::Ecdh { g, sk1, sk2, sk3, peer_mode, peer } => {
            let sch = &schemes()[*g as usize];
            let name = NAMES[*g as usize];
            let (s1, s2, s3) = (sk_of(*g, sk1), sk_of(*g, sk2), sk_of(*g, sk3));
            let (pk1, pk2) = (crrl_keypair(*g, &s1), crrl_keypair(*g, &s2));
            // peer bytes seen by party 1
            let peer_bytes: Vec<u8> = match peer_mode % 8 {
                0 => pk2.clone(),
                1 => vec![0u8; 32],          // neutral
                2 => pk1.clone(),            // own public key
                6 | 7 => {
                    // a valid peer key that shares a long prefix (or suffix) with the local public key: one byte of the
                    // local key is replaced by the first other value that still decodes to a non-neutral element
                    let pos = if peer_mode % 8 == 6 { 31 - (peer.first().copied().unwrap_or(0) as usize % 3) } else { peer.first().copied().unwrap_or(0) as usize % 32 };
                    let mut q = pk1.clone();
                    let start = peer.get(1).copied().unwrap_or(1);
                    for d in 1..=255u8 {
                        let mut c = pk1.clone();
                        c[pos] = pk1[pos].wrapping_add(start.wrapping_mul(2).wrapping_add(d));
                        if c != pk1 && sch.group.decode(&c).map(|p| !sch.group.is_neutral(&p)).unwrap_or(false) {
                            q = c;
                            break;
                        }
                    }
                    acc.tag("peer_shares_prefix_with_own_key");
                    q
                }
                _ => peer.clone(),           // arbitrary / mutated / wrong length
            };
            let q = if peer_bytes.len() == 32 { sch.group.decode(&peer_bytes).filter(|p| !sch.group.is_neutral(p)) } else { None };
            let valid = q.is_some();
            acc.tag(if valid { "peer_valid" } else { "peer_invalid_or_neutral" });
            let r1 = guard(|| crrl_ecdh(*g, &s1, &peer_bytes));
            let r1b = guard(|| crrl_ecdh(*g, &s1, &peer_bytes));
            let status_ok = matches!(&r1, Ok((_, s)) if *s == if valid { 0xFFFFFFFF } else { 0 });
            acc.check(status_ok, || format!("C09:{name}:ecdh:status"), || format!("ECDH(peer={}) -> {:?}, peer valid = {}", hex(&peer_bytes), r1.as_ref().map(|(k, s)| (hex(k), format!("{s:08x}"))), valid));
            acc.check(r1.is_ok() && r1 == r1b, || format!("C09:{name}:ecdh:nondeterministic"), || "two identical ECDH calls differ".into());
            if let Ok((k1, _)) = &r1 {
                if peer_mode % 8 == 0 {
                    // the other side
                    let r2 = guard(|| crrl_ecdh(*g, &s2, &pk1));
                    acc.check(matches!(&r2, Ok((k2, s)) if k2 == k1 && *s == 0xFFFFFFFF), || format!("C09:{name}:ecdh:asymmetric"), || format!("the two sides derive {} and {:?}", hex(k1), r2.as_ref().map(|(k, s)| (hex(k), format!("{s:08x}")))));
                }
                // dependence on the local secret: another private key with the same peer bytes gives another key
                if s3 != s1 {
                    let r3 = guard(|| crrl_ecdh(*g, &s3, &peer_bytes));
                    acc.check(matches!(&r3, Ok((k3, _)) if k3 != k1), || format!("C09:{name}:ecdh:key_independent_of_secret"), || format!("two different private keys derive the same key {} for peer {}", hex(k1), hex(&peer_bytes)));
                }
                // documented derivation (module comments / jq255 specification): BLAKE2s(lower key || higher key || 0x53 || shared point).
                // On success this is what makes the two sides agree, so it is part of the oracle (the other side of a crafted
                // peer key cannot be executed, its private key being unknown); on failure it is only reported.
                let (mk, _) = sch.ecdh(&s1, &pk1, &peer_bytes);
                if valid {
                    acc.check(mk == *k1, || format!("C09:{name}:ecdh:derivation"), || format!("ECDH(peer={}) = {} but the documented derivation (the value the peer computes) gives {}", hex(&peer_bytes), hex(k1), hex(&mk)));
                } else {
                    acc.tag(if mk == *k1 { "failure_kdf_matches_documented_derivation" } else { "failure_kdf_differs_from_documented_derivation" });
                    // "a key that depends on the local secret" / "unguessable by outsiders": the failure key must not be what an
                    // outsider obtains by running the documented derivation on public data in place of the secret
                    let mut peer32 = peer_bytes.clone();
                    peer32.resize(32, 0);
                    // (a public candidate that happens to be the encoding of the local secret itself - a secret of 3 and the
                    // one-byte peer string 03 - says nothing and is skipped)
                    let own_secret = pf::to_le(&s1, 32);
                    for tag in [0x46u8, 0x53] {
                        for (what, x) in [("zeros / the encoding of the neutral", vec![0u8; 32]), ("the peer bytes", peer32.clone()), ("the local public key", pk1.clone())] {
                            if x == own_secret { acc.tag("public_candidate_equals_secret_skipped"); continue; }
                            let guess = sch.ecdh_kdf(&pk1, &peer_bytes, tag, &x);
                            acc.check(guess != *k1, || format!("C09:{name}:ecdh:failure_key_public"), || format!("ECDH(peer={}) failed with key {} = KDF(public keys, tag {tag:#x}, {what}): computable without the local secret", hex(&peer_bytes), hex(k1)));
                        }
                    }
                }
            }
        }
    }
    acc.done()
}

pub struct C09 {
    classes: Vec<(ClassSpec, u8, u8)>,
}

impl C09 {
    pub fn new() -> Self {
        let mut classes = Vec::new();
        for g in 0..3u8 {
            let n = NAMES[g as usize];
            let w = if g == 2 { 1 } else { 2 };
            classes.push((cls(leak(format!("{n}/sign")), 150 * w, 15_000 * w), g, 0));
            classes.push((cls(leak(format!("{n}/sign_mutated")), 200 * w, 20_000 * w), g, 1));
            classes.push((cls(leak(format!("{n}/raw")), 150 * w, 15_000 * w), g, 2));
            classes.push((cls(leak(format!("{n}/ecdh")), 200 * w, 20_000 * w), g, 3));
        }
        C09 { classes }
    }
}

fn sk_strategy() -> BoxedStrategy<Vec<u8>> {
    prop_oneof![
        4 => prop::collection::vec(any::<u8>(), 40),
        1 => prop::sample::select(vec![vec![0u8], vec![1u8], vec![2u8]]),
        1 => (0u8..3, 0u8..4).prop_map(|(g, i)| (schemes()[g as usize].group.order() - 2u32 - i as u32).to_bytes_le()),
    ]
    .boxed()
}

fn hname_strategy() -> BoxedStrategy<String> {
    prop_oneof![3 => Just(String::new()), 3 => prop::sample::select(vec!["sha256", "sha384", "sha512", "sha3256", "blake2s", "blake2b"]).prop_map(|s| s.to_string()), 1 => "[a-z0-9]{1,20}".prop_map(|s| s)].boxed()
}

impl Property for C09 {
    type Case = Case;
    fn id(&self) -> &'static str {
        "C09"
    }
    fn rule(&self) -> String {
        "Cases (jq255e, jq255s, gls254): sign = sign / sign_seeded / sign_randomized (RNG tape) with secret scalars incl. 1, 2, r-1, messages 0..200 bytes and hash-name tags (empty, listed constants, arbitrary ASCII): deterministic, accepted by verify and by the reference predicate (48 bytes, canonical s, first 16 bytes of BLAKE2s(R || pk || tag || data) equal c with R = sB - c'Q, c' the 128-bit integer / c0 + c1*mu); mutated = one change (bit flip in signature or key, data, tag, s + r, lengths 45..49, tag/data boundary shift); raw = arbitrary key / signature bytes; ecdh = valid peer (both sides equal, status all-ones), neutral, own key, arbitrary 32-byte strings and other lengths (status 0, deterministic, key differs for another local secret). The documented key derivation is compared and reported as a tag only. All cases non-trivial. distinct = distinct case hash.".into()
    }
    fn shard_size(&self) -> u64 {
        20
    }
    fn shrink_iters(&self) -> u32 {
        100
    }
    fn classes(&self) -> Vec<ClassSpec> {
        self.classes.iter().map(|c| c.0.clone()).collect()
    }
    fn strategy(&self, class: usize) -> BoxedStrategy<Case> {
        let (_, g, kind) = self.classes[class].clone();
        let gi = 4 + g as usize;
        let data = prop_oneof![1 => Just(vec![]), 3 => prop::collection::vec(any::<u8>(), 0..64), 1 => prop::collection::vec(any::<u8>(), 64..200)];
        let seed = prop_oneof![1 => Just(vec![]), 2 => prop::collection::vec(any::<u8>(), 1..48)];
        match kind {
            0 => (sk_strategy(), hname_strategy(), data, 0u8..3, seed).prop_map(move |(sk, hname, data, mode, seed)| Case::Sign { g, sk, hname, data, mode, seed, mutation: 0, pos: 0, val: 0 }).boxed(),
            1 => (sk_strategy(), hname_strategy(), data, 0u8..3, seed, 1u8..9, any::<u16>(), any::<u8>()).prop_map(move |(sk, hname, data, mode, seed, mutation, pos, val)| Case::Sign { g, sk, hname, data, mode, seed, mutation, pos, val }).boxed(),
            2 => (
                prop_oneof![3 => enc_strategy(gi), 1 => prop::collection::vec(any::<u8>(), 32), 1 => prop::collection::vec(any::<u8>(), 0..40), 1 => Just(vec![0u8; 32])],
                prop_oneof![3 => prop::collection::vec(any::<u8>(), 48), 1 => prop::sample::select(vec![0usize, 16, 47, 49, 64]).prop_flat_map(|n| prop::collection::vec(any::<u8>(), n)), 1 => (prop::collection::vec(any::<u8>(), 16), 0u32..4).prop_map(move |(c, k)| { let n = rg(gi).order(); let s = match k { 0 => n.clone(), 1 => &n - 1u32, 2 => BigUint::from(0u32), _ => (BigUint::from(1u32) << 256) - 1u32 }; let mut v = c; v.extend(pf::to_le(&s, 32)); v })],
                hname_strategy(),
                data,
            )
                .prop_map(move |(pk, sig, hname, data)| Case::Raw { g, pk, sig, hname, data })
                .boxed(),
            _ => (
                sk_strategy(),
                sk_strategy(),
                sk_strategy(),
                0u8..8,
                prop_oneof![2 => enc_strategy(gi), 2 => prop::collection::vec(any::<u8>(), 32), 1 => prop::sample::select(vec![0usize, 1, 31, 33, 64]).prop_flat_map(|n| prop::collection::vec(any::<u8>(), n)), 1 => enc_strategy(gi).prop_map(|mut e| { e[31] |= 0x80; e })],
            )
                .prop_map(move |(sk1, sk2, sk3, peer_mode, peer)| Case::Ecdh { g, sk1, sk2, sk3, peer_mode, peer })
                .boxed(),
        }
    }
    fn check(&self, c: &Case) -> Outcome {
        check(c)
    }
}
