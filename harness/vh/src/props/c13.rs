//! C13 - truncated-signature verification is sound and complete (Ed25519, ECDSA/P-256).

use crate::engine::*;
use crate::points::refs;
use num_bigint::BigUint;
use num_traits::{One, Zero};
use proptest::prelude::*;
use refmodel::curves::{Pt, RefGroup};
use refmodel::pf;
use refmodel::schemes::{self, EdVariant};
use serde::{Deserialize, Serialize};
use std::sync::OnceLock;

#[derive(Clone, Debug, Hash, Serialize, Deserialize)]
pub enum Case {
    /// honest Ed25519 signature (seed, variant, ctx, msg), rm, fill of the ignored bits, optional bit flip in the kept part
    EdHonest { seed: Vec<u8>, v: u8, ctx: Vec<u8>, m: Vec<u8>, rm: u8, fill: Vec<u8>, flip: Option<u16> },
    /// low-order public key: (R = S*B + T, S) is valid for every message; S = s0 + (2^m + s1)*2^n with s1 steered
    EdSteered { ta: u8, tr: u8, rm: u8, s1_class: u8, s1_raw: u32, s0: Vec<u8>, v: u8, ctx: Vec<u8>, m: Vec<u8>, fill: Vec<u8> },
    /// the precomputed table: every index j at rm (sweep)
    EdIndex { rm: u8, j: u16, neg: bool },
    /// UX_COMP against j*2^240*B (hook)
    UxComp,
    /// P-256: forged-valid signature with chosen s = s0 + (a + b*2^k)*2^n (h = s*kn - r*d), input encoding length per half
    P256 { d: Vec<u8>, kn: Vec<u8>, rm: u8, a_class: u8, b_class: u8, raw: u32, s0: Vec<u8>, half_len: u8, high_s: bool, fill: Vec<u8>, flip: Option<u16> },
    /// P-256 honest: sign_hash then prepare / truncate / verify
    P256Honest { d: Vec<u8>, hv: Vec<u8>, rm: u8, fill: Vec<u8> },
}

fn ed() -> &'static schemes::EdDsa {
    static S: OnceLock<schemes::EdDsa> = OnceLock::new();
    S.get_or_init(schemes::eddsa25519)
}
fn ec() -> &'static schemes::Ecdsa {
    static S: OnceLock<schemes::Ecdsa> = OnceLock::new();
    S.get_or_init(schemes::ecdsa_p256)
}

fn variant(v: u8) -> EdVariant {
    match v % 3 { 0 => EdVariant::Raw, 1 => EdVariant::Ctx, _ => EdVariant::Ph }
}

/// overwrite the last rm bits of a 64-byte signature: the last floor(rm/8) bytes and the top rm%8 bits of the
/// last non-ignored byte
fn overwrite(sig: &[u8], rm: usize, fill: &[u8]) -> Vec<u8> {
    let mut s = sig.to_vec();
    let full = rm / 8;
    for i in 0..full {
        s[63 - i] = fill.get(i).copied().unwrap_or(0);
    }
    let part = rm % 8;
    if part != 0 {
        let idx = 63 - full;
        let mask = 0xFFu8 << (8 - part);
        s[idx] = (s[idx] & !mask) | (fill.get(4).copied().unwrap_or(0) & mask);
    }
    s
}

fn kept_equal(a: &[u8], b: &[u8], rm: usize) -> bool {
    overwrite(a, rm, &[0; 5]) == overwrite(b, rm, &[0; 5])
}

fn ed_trunc(pk: &[u8], sig: &[u8], rm: usize, v: EdVariant, ctx: &[u8], m: &[u8]) -> Option<Option<Vec<u8>>> {
    let k = crrl::ed25519::PublicKey::decode(pk)?;
    Some(match v {
        EdVariant::Raw => k.verify_trunc_raw(sig, rm, m).map(|x| x.to_vec()),
        EdVariant::Ctx => k.verify_trunc_ctx(sig, rm, ctx, m).map(|x| x.to_vec()),
        EdVariant::Ph => k.verify_trunc_ph(sig, rm, ctx, m).map(|x| x.to_vec()),
    })
}

fn ed_verify(pk: &[u8], sig: &[u8], v: EdVariant, ctx: &[u8], m: &[u8]) -> bool {
    let Some(k) = crrl::ed25519::PublicKey::decode(pk) else { return false };
    match v {
        EdVariant::Raw => k.verify_raw(sig, m),
        EdVariant::Ctx => k.verify_ctx(sig, ctx, m),
        EdVariant::Ph => k.verify_ph(sig, ctx, m),
    }
}

/// common Ed25519 oracle: `orig` is a signature known to be valid (None when the prefix was corrupted)
fn ed_oracle(acc: &mut Acc, pk: &[u8], presented: &[u8], orig: Option<&[u8]>, rm: usize, v: EdVariant, ctx: &[u8], m: &[u8]) {
    let rctx: &[u8] = if v == EdVariant::Raw { &[] } else { ctx };
    let got = guard(|| ed_trunc(pk, presented, rm, v, ctx, m));
    match &got {
        Err(e) => {
            acc.check(false, || format!("C13:ed25519:{e}"), || format!("verify_trunc panicked (rm={rm}, sig={})", hex(presented)));
        }
        Ok(None) => {
            acc.check(false, || "C13:ed25519:public_key_rejected".into(), || format!("public key {} rejected", hex(pk)));
        }
        Ok(Some(res)) => {
            if let Some(o) = orig {
                // completeness: the original signature is returned
                acc.check(res.as_deref() == Some(o), || "C13:ed25519:incomplete".into(), || format!("verify_trunc(rm={rm}) -> {:?}, expected the original signature {} (pk={}, presented={})", res.as_ref().map(|x| hex(x)), hex(o), hex(pk), hex(presented)));
            }
            if let Some(x) = res {
                // soundness: whatever is returned is accepted by the ordinary verifier and the reference, and completes the prefix
                let ok1 = ed_verify(pk, x, v, ctx, m);
                let ok2 = ed().verify(pk, x, v, rctx, m).0;
                acc.check(ok1 && ok2 && kept_equal(x, presented, rm), || "C13:ed25519:unsound".into(), || format!("verify_trunc(rm={rm}) returned {} : ordinary verifier {}, reference {}, same prefix {}", hex(x), ok1, ok2, kept_equal(x, presented, rm)));
            } else if orig.is_none() {
                acc.check(true, String::new, String::new);
            }
        }
    }
}

fn ed_low_order_sig(ta: u8, tr: u8, s: &BigUint) -> (Vec<u8>, Vec<u8>) {
    let cv = &ed().curve;
    let t = &refs().torsion[0];
    let pk = cv.encode(&t[ta as usize % t.len()]);
    let r = cv.add(&cv.mul(s, &cv.base()), &t[tr as usize % t.len()]);
    let mut sig = cv.encode(&r);
    sig.extend(pf::to_le(s, 32));
    (pk, sig)
}

fn p256_trunc(pk: &[u8], sig: &[u8], rm: usize, hv: &[u8]) -> Option<Option<Vec<u8>>> {
    let k = crrl::p256::PublicKey::decode(pk)?;
    Some(k.verify_trunc_hash(sig, rm, hv).map(|x| x.to_vec()))
}

fn p256_oracle(acc: &mut Acc, pk: &[u8], q: &Pt, std_sig: &[u8], hv: &[u8], rm: usize, fill: &[u8], flip: Option<u16>) {
    // preparation
    let n = &ec().curve.order;
    let prep = guard(|| crrl::p256::PrivateKey::prepare_truncate(std_sig).map(|x| x.to_vec()));
    let Some((r, s)) = ec().split_sig(std_sig) else { return };
    let p = &ec().curve.p;
    let exp_none = std_sig.len() > 64 || std_sig.is_empty() || r.is_zero() || &r >= n || s.is_zero() || &s >= n || r < (p - n);
    let s_low = if s.bit(255) { n - &s } else { s.clone() };
    let mut exp_prep = pf::to_be(&r, 32);
    exp_prep.extend(pf::to_le(&s_low, 32));
    match &prep {
        Err(e) => {
            acc.check(false, || format!("C13:p256:prepare:{e}"), || "prepare_truncate panicked".into());
            return;
        }
        Ok(None) => {
            acc.check(exp_none, || "C13:p256:prepare_refused".into(), || format!("prepare_truncate({}) returned None for an in-range signature", hex(std_sig)));
            return;
        }
        Ok(Some(x)) => {
            acc.check(!exp_none && *x == exp_prep, || "C13:p256:prepare_mangled".into(), || format!("prepare_truncate({}) -> {} expected {} (r big-endian on 32 bytes, min(s, n-s) little-endian)", hex(std_sig), hex(x), hex(&exp_prep)));
            if *x != exp_prep {
                return;
            }
        }
    }
    let mut exp_out = pf::to_be(&r, 32);
    exp_out.extend(pf::to_be(&s_low, 32));
    let mut presented = overwrite(&exp_prep, rm, fill);
    let mut corrupted = false;
    if let Some(f) = flip {
        let kept_bits = 512 - rm;
        let pbit = f as usize % kept_bits;
        // bit positions: r is big-endian (all kept), s little-endian (the top bits are the ignored ones)
        presented[pbit / 8] ^= 1 << (pbit % 8);
        if pbit / 8 == 63 - rm / 8 && (pbit % 8) >= 8 - (rm % 8) && rm % 8 != 0 {
            // the flipped bit is an ignored one after all
        } else {
            corrupted = true;
        }
    }
    let got = guard(|| p256_trunc(pk, &presented, rm, hv));
    match &got {
        Err(e) => {
            acc.check(false, || format!("C13:p256:{e}"), || format!("verify_trunc_hash panicked (rm={rm})"));
        }
        Ok(None) => {
            acc.check(false, || "C13:p256:public_key_rejected".into(), || "public key rejected".into());
        }
        Ok(Some(res)) => {
            if !corrupted {
                acc.check(res.as_deref() == Some(&exp_out[..]), || "C13:p256:incomplete".into(), || format!("verify_trunc_hash(rm={rm}) -> {:?}, expected {} (prepared {}, presented {})", res.as_ref().map(|x| hex(x)), hex(&exp_out), hex(&exp_prep), hex(&presented)));
            }
            if let Some(x) = res {
                let ok1 = crrl::p256::PublicKey::decode(pk).map(|k| k.verify_hash(x, hv)).unwrap_or(false);
                let ok2 = ec().verify(q, x, hv).0;
                // the returned signature completes the presented prefix (r identical, s agrees on the kept low bits)
                let same = x[..32] == presented[..32] && {
                    let sx = pf::from_be(&x[32..]);
                    let keep = 256 - rm;
                    let mask = (BigUint::one() << keep) - 1u32;
                    let mut sp = presented[32..].to_vec();
                    sp = overwrite(&[vec![0u8; 32], sp].concat(), rm, &[0; 5])[32..].to_vec();
                    (sx & &mask) == (pf::from_le(&sp) & &mask)
                };
                acc.check(ok1 && ok2 && same, || "C13:p256:unsound".into(), || format!("verify_trunc_hash(rm={rm}) returned {}: ordinary verifier {}, reference {}, completes the prefix {}", hex(x), ok1, ok2, same));
            }
        }
    }
}

fn key_of(b: &[u8]) -> BigUint {
    let n = &ec().curve.order;
    (pf::from_le(b) % (n - 1u32)) + 1u32
}

fn check(case: &Case) -> Outcome {
    let mut acc = Acc::new();
    acc.nt(true);
    match case {
        Case::EdHonest { seed, v, ctx, m, rm, fill, flip } => {
            let rm = (*rm as usize).clamp(8, 32);
            let vv = variant(*v);
            let rctx: &[u8] = if vv == EdVariant::Raw { &[] } else { ctx };
            let sig = ed().sign(seed, vv, rctx, m);
            let (_, _, pk) = ed().expand(seed);
            let mut presented = overwrite(&sig, rm, fill);
            let mut orig = Some(&sig[..]);
            if let Some(f) = flip {
                let pbit = *f as usize % (512 - rm);
                presented[pbit / 8] ^= 1 << (pbit % 8);
                orig = None;
                acc.tag("corrupted_prefix");
            }
            ed_oracle(&mut acc, &pk, &presented, orig, rm, vv, ctx, m);
        }
        Case::EdSteered { ta, tr, rm, s1_class, s1_raw, s0, v, ctx, m, fill } => {
            let rm = (*rm as usize).clamp(8, 32);
            let n = 256 - rm;
            let mm = rm - 5;
            let nj = mm.min(14);
            let ii: i64 = 1 << (mm - nj);
            let lim: i64 = 1 << mm;
            let s1: i64 = match s1_class % 12 {
                0 => -lim,
                1 => -lim + 1,
                2 => -1,
                3 => 0,
                4 => 1,
                5 => ii - 1,
                6 => ii,
                7 => ii + 1,
                8 => lim - 1,
                9 => lim,
                10 => ((*s1_raw as i64) % (lim + 1)) / ii * ii, // a multiple of I: index j, a = 0
                _ => (*s1_raw as i64) % (2 * lim + 1) - lim,
            };
            let l = &ed().curve.order;
            let mut s0i = pf::from_le(s0) & ((BigUint::one() << n) - 1u32);
            let hi = BigUint::from((lim + s1) as u64);
            let mut s = &s0i + (&hi << n);
            if &s >= l {
                // only possible for s1 = 2^m: keep S below L
                s0i = &s0i % (l - (&hi << n));
                s = &s0i + (&hi << n);
            }
            acc.tag(match s1_class % 12 { 0 | 1 | 8 | 9 => "s1_at_range_end", 5 | 6 | 7 => "s1_at_I", 10 => "s1_multiple_of_I", 2 | 3 | 4 => "s1_near_zero", _ => "s1_uniform" });
            let (pk, sig) = ed_low_order_sig(*ta, *tr, &s);
            let vv = variant(*v);
            let presented = overwrite(&sig, rm, fill);
            ed_oracle(&mut acc, &pk, &presented, Some(&sig), rm, vv, ctx, m);
        }
        Case::EdIndex { rm, j, neg } => {
            let rm = (*rm as usize).clamp(19, 32);
            let n = 256 - rm;
            let mm = rm - 5;
            let ii: i64 = 1 << (mm - 14);
            let lim: i64 = 1 << mm;
            let jj = (*j as i64).min(1 << 14);
            let s1 = if *neg { -jj * ii } else { jj * ii };
            let l = &ed().curve.order;
            let hi = BigUint::from((lim + s1) as u64);
            let mut s0i = (BigUint::from(*j) * BigUint::from(0x9E3779B97F4A7C15u64) * BigUint::from(0xC2B2AE3D27D4EB4Fu64)) & ((BigUint::one() << n) - 1u32);
            if &(&s0i + (&hi << n)) >= l {
                s0i = &s0i % (l - (&hi << n));
            }
            let s = &s0i + (&hi << n);
            let (pk, sig) = ed_low_order_sig(1, (*j % 8) as u8, &s);
            let presented = overwrite(&sig, rm, &[0xFF; 5]);
            ed_oracle(&mut acc, &pk, &presented, Some(&sig), rm, EdVariant::Raw, &[], &[*j as u8]);
        }
        Case::UxComp => {
            #[cfg(feature = "hooks")]
            {
                let cv = &ed().curve;
                let p = &cv.p;
                // U_1 = 2^240 * B, U_i = i*U_1
                let u1 = cv.mul(&(BigUint::one() << 240), &cv.base());
                let mut exp: Vec<u64> = Vec::with_capacity(16385);
                let mut cur = cv.neutral();
                for i in 0..=16384u64 {
                    let Pt::A(_, y) = &cur else { unreachable!() };
                    let den = pf::sub(&BigUint::one(), y, p);
                    let x = if den.is_zero() { BigUint::zero() } else { pf::mul(&pf::add(&BigUint::one(), y, p), &pf::inv(&den, p), p) };
                    let low48 = (&x & BigUint::from((1u64 << 48) - 1)).to_u64_digits().first().copied().unwrap_or(0);
                    exp.push((low48 << 16) | i);
                    cur = cv.add(&cur, &u1);
                }
                exp.sort();
                let tab = crrl::ed25519::verif_ux_comp();
                let bad = tab.iter().zip(exp.iter()).position(|(a, b)| a != b);
                acc.evals = 16384;
                acc.check(bad.is_none(), || "C13:ed25519:UX_COMP".into(), || format!("UX_COMP differs from the sorted (x(j*2^240*B) mod 2^48, j) list at position {:?}", bad));
            }
        }
        Case::P256 { d, kn, rm, a_class, b_class, raw, s0, half_len, high_s, fill, flip } => {
            let rm = (*rm as usize).clamp(8, 32);
            let c = &ec().curve;
            let n = &c.order;
            let di = key_of(d);
            let mut ki = key_of(kn);
            let nn = 256 - rm;
            let mm = 255 - nn;
            let kk = (mm + 1) >> 1;
            let amax: u64 = 1 << kk;
            let bmax: u64 = 1 << (mm - kk);
            let a = match a_class % 8 { 0 => 0, 1 => 1, 2 => 99, 3 => 100, 4 => 101, 5 => amax - 1, 6 => amax / 2, _ => (*raw as u64) % amax };
            let b = match b_class % 5 { 0 => 0, 1 => 1, 2 => bmax - 1, 3 => bmax / 2, _ => ((*raw as u64) >> 7) % bmax };
            let a = a % amax;
            let s1 = a + (b << kk);
            let short = *half_len < 32;
            // for encodings shorter than 64 bytes both integers must be below 2^(8*half_len): steer s and search k
            let hl = (*half_len as usize).clamp(28, 32);
            let mut s = (pf::from_le(s0) & ((BigUint::one() << nn) - 1u32)) + (BigUint::from(s1) << nn);
            if short {
                s &= (BigUint::one() << (8 * hl)) - 1u32;
                if s.is_zero() { s = BigUint::one(); }
            }
            if s.is_zero() {
                // s = 0 is not a signature; the nearest boundary value is 2^n (received part zero, first ignored bit set)
                s = BigUint::one() << nn;
            }
            if (pf::from_le(s0) & ((BigUint::one() << nn) - 1u32)).is_zero() { acc.tag("received_part_of_s_zero"); }
            let r = loop {
                let Pt::A(x, _) = c.mul(&ki, &c.base()) else { unreachable!() };
                let r = &x % n;
                let fits = !short || r.bits() as usize <= 8 * hl;
                // prepare_truncate documents a refusal for r < p - n (probability 2^-128): avoid by construction
                if fits && !r.is_zero() && r >= (&c.p - n) { break r; }
                if short && hl < 31 {
                    // r < 2^(8*hl) for hl <= 30 cannot be found by search; use 31 bytes instead
                    break BigUint::zero();
                }
                ki = (&ki + 1u32) % n;
                if ki.is_zero() { ki = BigUint::one(); }
            };
            if r.is_zero() { return Outcome::pass(false); }
            // present s or n - s to the preparation step (it must canonicalise to the low one)
            let s_in = if *high_s && !short { n - &s } else { s.clone() };
            let s_for_h = if *high_s && !short { n - &s } else { s.clone() };
            let h = pf::sub(&pf::mul(&s_for_h, &ki, n), &pf::mul(&r, &di, n), n);
            let hv = pf::to_be(&h, 32);
            let q = ec().public(&di);
            let pk = c.encode_uncompressed(&q);
            let mut std_sig = pf::to_be(&r, hl);
            std_sig.extend(pf::to_be(&s_in, hl));
            if short { acc.tag("short_input_encoding"); }
            if *high_s && !short { acc.tag("high_s_input"); }
            if flip.is_some() { acc.tag("corrupted_prefix"); }
            // sanity of the construction: the standard signature is valid
            let valid = ec().verify(&q, &std_sig, &hv).0;
            if !valid {
                return Outcome::fail("C13:harness:forged_signature_invalid", "internal: constructed signature does not verify in the reference model");
            }
            p256_oracle(&mut acc, &pk, &q, &std_sig, &hv, rm, fill, *flip);
        }
        Case::P256Honest { d, hv, rm, fill } => {
            let rm = (*rm as usize).clamp(8, 32);
            let di = key_of(d);
            let q = ec().public(&di);
            let pk = ec().curve.encode_uncompressed(&q);
            let Some(sig) = ec().sign(&di, hv, &[]) else { return Outcome::pass(false) };
            p256_oracle(&mut acc, &pk, &q, &sig, hv, rm, fill, None);
        }
    }
    acc.done()
}

pub struct C13;

fn rm_strategy(max: u8) -> BoxedStrategy<u8> {
    (8u8..=max).boxed()
}

impl Property for C13 {
    type Case = Case;
    fn id(&self) -> &'static str {
        "C13"
    }
    fn rule(&self) -> String {
        "Cases: Ed25519 honest (seed, pure / ctx / ph variant, message) and steered (low-order public key, so that (R = S*B + T, S) is valid for every message and S = s0 + (2^m + s1)*2^n is chosen freely: s1 in {-2^m, -2^m+1, -1, 0, 1, I-1, I, I+1, 2^m-1, 2^m, multiples of I, uniform}); every rm in 8..=32; ignored bits overwritten with zeros / ones / random; optional bit flip in the kept part. Sweep: every index j = 0..16384 of the precomputed table, both signs, at rm = 32 (thorough: every rm >= 19), and UX_COMP itself against j*2^240*B through the hook. P-256: forged-valid signatures (h = s*k - r*d) with s = s0 + (a + b*2^k)*2^n, a in {0,1,99,100,101,2^k-1,...} (batch joints), b in {0,1,max}, presented to prepare_truncate as s or n - s, on 64-byte and 62-byte encodings, plus honest sign_hash signatures. Oracle: completeness (the original / the big-endian form of the prepared signature is returned), soundness (anything returned is accepted by the ordinary verifier and by the reference model and completes the presented prefix), preparation output = (r big-endian, min(s, n-s) little-endian). All cases non-trivial. distinct = distinct case hash.".into()
    }
    fn shard_size(&self) -> u64 {
        10
    }
    fn watchdog_secs(&self) -> u64 {
        600
    }
    fn shrink_iters(&self) -> u32 {
        30
    }
    fn classes(&self) -> Vec<ClassSpec> {
        vec![
            cls("ed25519/honest", 500, 40_000),
            cls("ed25519/honest_corrupted", 250, 20_000),
            cls("ed25519/steered", 1200, 100_000),
            cls("p256/forged_rm8_20", 400, 30_000),
            cls("p256/forged_rm21_32", 60, 4_000),
            cls("p256/forged_short_encoding", 120, 8_000),
            cls("p256/forged_corrupted", 100, 8_000),
            cls("p256/honest", 120, 8_000),
        ]
    }
    fn strategy(&self, class: usize) -> BoxedStrategy<Case> {
        let fill = prop_oneof![Just(vec![0u8; 5]), Just(vec![0xFFu8; 5]), prop::collection::vec(any::<u8>(), 5)];
        let ctx = prop_oneof![Just(vec![]), prop::collection::vec(any::<u8>(), 0..20)];
        let msg = prop::collection::vec(any::<u8>(), 0..80);
        // the part of S / s that is received: uniform, or a boundary value (zero, one, all-ones, a single high bit)
        let low_part = || prop_oneof![
            5 => prop::collection::vec(any::<u8>(), 32),
            1 => Just(vec![0u8; 32]),
            1 => Just(vec![0xFFu8; 32]),
            1 => Just({ let mut v = vec![0u8; 32]; v[0] = 1; v }),
            1 => (0usize..256).prop_map(|i| { let mut v = vec![0u8; 32]; v[i / 8] = 1 << (i % 8); v }),
        ];
        match class {
            0 | 1 => {
                let flip: BoxedStrategy<Option<u16>> = if class == 1 { any::<u16>().prop_map(Some).boxed() } else { Just(None).boxed() };
                (prop::collection::vec(any::<u8>(), 32), 0u8..3, ctx, msg, rm_strategy(32), fill, flip).prop_map(|(seed, v, ctx, m, rm, fill, flip)| Case::EdHonest { seed, v, ctx, m, rm, fill, flip }).boxed()
            }
            2 => (any::<u8>(), any::<u8>(), rm_strategy(32), 0u8..12, any::<u32>(), low_part(), 0u8..3, ctx, msg, fill)
                .prop_map(|(ta, tr, rm, s1_class, s1_raw, s0, v, ctx, m, fill)| Case::EdSteered { ta, tr, rm, s1_class, s1_raw, s0, v, ctx, m, fill })
                .boxed(),
            3 | 4 | 5 | 6 => {
                let rm = match class { 3 => (8u8..=20).boxed(), 4 => (21u8..=32).boxed(), _ => (8u8..=24).boxed() };
                let half: BoxedStrategy<u8> = if class == 5 { Just(31u8).boxed() } else { Just(32u8).boxed() };
                let flip: BoxedStrategy<Option<u16>> = if class == 6 { any::<u16>().prop_map(Some).boxed() } else { Just(None).boxed() };
                (prop::collection::vec(any::<u8>(), 40), prop::collection::vec(any::<u8>(), 40), rm, 0u8..8, 0u8..5, any::<u32>(), low_part(), half, any::<bool>(), fill, flip)
                    .prop_map(|(d, kn, rm, a_class, b_class, raw, s0, half_len, high_s, fill, flip)| Case::P256 { d, kn, rm, a_class, b_class, raw, s0, half_len, high_s, fill, flip })
                    .boxed()
            }
            _ => (prop::collection::vec(any::<u8>(), 40), prop::collection::vec(any::<u8>(), 32), rm_strategy(20), fill).prop_map(|(d, hv, rm, fill)| Case::P256Honest { d, hv, rm, fill }).boxed(),
        }
    }
    fn sweep(&self, tier: Tier) -> Vec<(&'static str, Case)> {
        let mut v = Vec::new();
        let rms: Vec<u8> = if tier == Tier::Quick { vec![32] } else { (19..=32).collect() };
        for rm in rms {
            for j in 0..=16384u16 {
                v.push(("ed25519/table_index_sweep", Case::EdIndex { rm, j, neg: false }));
                if j != 0 {
                    v.push(("ed25519/table_index_sweep", Case::EdIndex { rm, j, neg: true }));
                }
            }
        }
        if cfg!(feature = "hooks") {
            v.push(("ed25519/UX_COMP_table", Case::UxComp));
        }
        v
    }
    fn check(&self, c: &Case) -> Outcome {
        check(c)
    }
}
