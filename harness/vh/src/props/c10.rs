//! C10 - variable-time fast paths agree with the constant-time reference (and never panic).

use crate::engine::*;
use crate::ftypes::leak;
use crate::gen::SCALAR_CLASSES;
use crate::points::*;
use crate::with_group;
use num_bigint::BigUint;
use proptest::prelude::*;
use refmodel::pf;
use serde::{Deserialize, Serialize};

#[derive(Clone, Debug, Hash, Serialize, Deserialize)]
pub enum Case {
    /// u*P + v*G
    Mamv { g: u8, p: PV, u: Vec<u8>, v: Vec<u8>, form: u8 },
    /// jq255e / jq255s: u (128 bits) * P + v*G
    Mul128 { g: u8, p: PV, #[serde(with = "crate::gen::u128_str")] u: u128, v: Vec<u8> },
    /// gls254: (u0 + u1*mu)*P + v*G
    Mul64mu { p: PV, u0: u64, u1: u64, v: Vec<u8> },
    /// verify helper: tests s*G = R + k*Q (cofactored on the Edwards curves) with R = s*G - k*Q + delta
    Helper { g: u8, q: PV, s: Vec<u8>, k: Vec<u8>, delta: PV, mode: u8 },
}

pub struct C10 {
    classes: Vec<(ClassSpec, Kind)>,
}

#[derive(Clone)]
enum Kind {
    Mamv(usize, usize, usize),
    Mul128(usize, usize),
    Mul64mu(usize),
    Helper(usize, usize, u8),
}

const HELPER_GROUPS: &[usize] = &[0, 1, 2, 3, 7, 8];

fn check_mamv<G: Grp>(p: &PV, u: &[u8], v: &[u8], form: u8) -> Outcome {
    let mut acc = Acc::new();
    let g = G::G;
    let r = rg(g);
    let name = GROUP_NAMES[g];
    let n = r.order();
    let (ui, vi) = (pf::from_le(u) % &n, pf::from_le(v) % &n);
    let (us, vs): (G::S, G::S) = (scalar_of::<G>(&ui), scalar_of::<G>(&vi));
    let pt: G = build_pv(p);
    let rp = ref_pv(g, p);
    acc.nt(true);
    let got = guard(|| G::mul_add_mulgen_vartime(pt, &us, &vs, form).encode());
    // the property's own reference: the constant-time expression
    let ct = guard(|| G::add(G::mul(pt, &us, 0), G::mulgen(&vs, 0), 0).encode());
    acc.check(got.is_ok() && got == ct, || format!("C10:{name}:mul_add_mulgen_vartime{}", if got.is_err() { ":panic" } else { "" }), || format!("u*P+v*G: vartime {:?} vs constant-time {:?} (u={:x} v={:x})", got.as_ref().map(|b| hex(b)), ct.as_ref().map(|b| hex(b)), ui, vi));
    // independent reference
    let exp = r.encode(&r.add(&r.mul(&ui, &rp), &r.mul(&vi, &r.base())));
    acc.check(got.as_ref().ok() == Some(&exp), || format!("C10:{name}:mul_add_mulgen_vartime:model"), || format!("u*P+v*G: vartime {:?} vs model {} (u={:x} v={:x})", got.as_ref().map(|b| hex(b)), hex(&exp), ui, vi));
    acc.done()
}

fn mul128<G: Grp>(p: G, u: u128, v: &G::S) -> G {
    use std::any::Any;
    let a: &dyn Any = &p;
    let va: &dyn Any = v;
    let out: Box<dyn Any> = if let Some(p) = a.downcast_ref::<crrl::jq255e::Point>() {
        Box::new(p.mul128_add_mulgen_vartime(u, va.downcast_ref::<crrl::jq255e::Scalar>().unwrap()))
    } else if let Some(p) = a.downcast_ref::<crrl::jq255s::Point>() {
        Box::new(p.mul128_add_mulgen_vartime(u, va.downcast_ref::<crrl::jq255s::Scalar>().unwrap()))
    } else {
        panic!("mul128 on another group")
    };
    *out.downcast::<G>().ok().unwrap()
}

fn check_mul128<G: Grp>(p: &PV, u: u128, v: &[u8]) -> Outcome {
    let mut acc = Acc::new();
    let g = G::G;
    let r = rg(g);
    let name = GROUP_NAMES[g];
    let n = r.order();
    let vi = pf::from_le(v) % &n;
    let vs: G::S = scalar_of::<G>(&vi);
    let ui = BigUint::from(u);
    let us: G::S = scalar_of::<G>(&ui);
    let pt: G = build_pv(p);
    let rp = ref_pv(g, p);
    acc.nt(true);
    let got = guard(|| mul128::<G>(pt, u, &vs).encode());
    let ct = guard(|| G::add(G::mul(pt, &us, 0), G::mulgen(&vs, 0), 0).encode());
    acc.check(got.is_ok() && got == ct, || format!("C10:{name}:mul128_add_mulgen_vartime{}", if got.is_err() { ":panic" } else { "" }), || format!("u128*P+v*G: vartime {:?} vs constant-time {:?} (u={:x} v={:x})", got.as_ref().map(|b| hex(b)), ct.as_ref().map(|b| hex(b)), u, vi));
    let exp = r.encode(&r.add(&r.mul(&ui, &rp), &r.mul(&vi, &r.base())));
    acc.check(got.as_ref().ok() == Some(&exp), || format!("C10:{name}:mul128_add_mulgen_vartime:model"), || format!("u128*P+v*G: vartime {:?} vs model {} (u={:x} v={:x})", got.as_ref().map(|b| hex(b)), hex(&exp), u, vi));
    acc.done()
}

fn check_mul64mu(p: &PV, u0: u64, u1: u64, v: &[u8]) -> Outcome {
    use crrl::gls254::{Point, Scalar};
    let mut acc = Acc::new();
    let g = 6usize;
    let r = rg(g);
    let n = r.order();
    let vi = pf::from_le(v) % &n;
    let vs: Scalar = scalar_of::<Point>(&vi);
    let pt: Point = build_pv(p);
    let rp = ref_pv(g, p);
    acc.nt(true);
    // mu: the even square root of -1 modulo r (documentation of set_mul64mu_add_mulgen_vartime)
    let mut mu = pf::sqrt_any(&(&n - 1u32), &n).unwrap();
    if mu.bit(0) {
        mu = &n - mu;
    }
    let ui = (BigUint::from(u0) + BigUint::from(u1) * &mu) % &n;
    let us: Scalar = scalar_of::<Point>(&ui);
    let got = guard(|| pt.mul64mu_add_mulgen_vartime(u0, u1, &vs).encode().to_vec());
    let got2 = guard(|| { let mut x = pt; x.set_mul64mu_add_mulgen_vartime(u0, u1, &vs); x.encode().to_vec() });
    let ct = guard(|| (pt * us + Point::mulgen(&vs)).encode().to_vec());
    acc.check(got.is_ok() && got == ct && got2 == ct, || format!("C10:gls254:mul64mu_add_mulgen_vartime{}", if got.is_err() { ":panic" } else { "" }), || format!("(u0+u1*mu)*P+v*G: vartime {:?} vs constant-time {:?} (u0={:x} u1={:x} v={:x})", got.as_ref().map(|b| hex(b)), ct.as_ref().map(|b| hex(b)), u0, u1, vi));
    let exp = r.encode(&r.add(&r.mul(&ui, &rp), &r.mul(&vi, &r.base())));
    acc.check(got.as_ref().ok() == Some(&exp), || "C10:gls254:mul64mu_add_mulgen_vartime:model".into(), || format!("(u0+u1*mu)*P+v*G: vartime {:?} vs model {} (u0={:x} u1={:x} v={:x})", got.as_ref().map(|b| hex(b)), hex(&exp), u0, u1, vi));
    acc.done()
}

fn helper<G: Grp>(q: G, rr: &G, s: &G::S, k: &G::S) -> bool {
    use std::any::Any;
    macro_rules! go {
        ($P:ty, $S:ty) => {
            if let Some(q) = (&q as &dyn Any).downcast_ref::<$P>() {
                let rr = (rr as &dyn Any).downcast_ref::<$P>().unwrap();
                let s = (s as &dyn Any).downcast_ref::<$S>().unwrap();
                let k = (k as &dyn Any).downcast_ref::<$S>().unwrap();
                return q.verify_helper_vartime(rr, s, k);
            }
        };
    }
    go!(crrl::ed25519::Point, crrl::ed25519::Scalar);
    go!(crrl::ed448::Point, crrl::ed448::Scalar);
    go!(crrl::p256::Point, crrl::p256::Scalar);
    go!(crrl::secp256k1::Point, crrl::secp256k1::Scalar);
    go!(crrl::ristretto255::Point, crrl::ristretto255::Scalar);
    go!(crrl::decaf448::Point, crrl::decaf448::Scalar);
    panic!("no verify_helper_vartime on this group")
}

fn check_helper<G: Grp>(q: &PV, s: &[u8], k: &[u8], delta: &PV, mode: u8) -> Outcome {
    let mut acc = Acc::new();
    let g = G::G;
    let r = rg(g);
    let name = GROUP_NAMES[g];
    let n = r.order();
    let (si, ki) = (pf::from_le(s) % &n, pf::from_le(k) % &n);
    let (ss, ks): (G::S, G::S) = (scalar_of::<G>(&si), scalar_of::<G>(&ki));
    let qp: G = build_pv(q);
    let rq = ref_pv(g, q);
    // R = s*G - k*Q (+ delta): mode 0 exact, 1 + low-order point (Edwards) / exact (others), 2 + delta (arbitrary point)
    let base_r: G = G::sub(G::mulgen(&ss, 0), G::mul(qp, &ks, 0), 0);
    let (sb, kq) = (r.mul(&si, &r.base()), r.mul(&ki, &rq));
    let ref_base = r.sub(&sb, &kq);
    let (rp, rr): (G, _) = match mode % 3 {
        1 if is_edwards(g) => {
            let t = PSrc::Torsion(s.first().copied().unwrap_or(1));
            (G::add(base_r, build_src(&t), 0), r.add(&ref_base, &ref_src(g, &t)))
        }
        2 => (G::add(base_r, build_pv(delta), 0), r.add(&ref_base, &ref_pv(g, delta))),
        _ => (base_r, ref_base),
    };
    // expected verdict from the reference: c*(s*G - R - k*Q) == neutral, c = cofactor on Edwards, 1 elsewhere
    let t = r.sub(&r.sub(&sb, &rr), &kq);
    let c = match g { 0 => 8u32, 1 => 4, _ => 1 };
    let expected = r.is_neutral(&r.mul(&BigUint::from(c), &t));
    acc.nt(true);
    acc.tag(if expected { "helper_expected_true" } else { "helper_expected_false" });
    let got = guard(|| helper::<G>(qp, &rp, &ss, &ks));
    acc.check(got == Ok(expected), || format!("C10:{name}:verify_helper_vartime{}", if got.is_err() { ":panic" } else { "" }), || format!("verify_helper_vartime -> {:?}, direct evaluation says {} (s={:x} k={:x} mode={})", got, expected, si, ki, mode % 3));
    acc.done()
}

impl C10 {
    pub fn new() -> Self {
        let mut classes = Vec::new();
        for g in 0..NGROUPS {
            for (sc, sn) in SCALAR_CLASSES.iter().enumerate() {
                for pc in [1usize, 3, 4] {
                    let w = if pc == 3 { 24 } else { 10 };
                    classes.push((cls(leak(format!("{}/mamv/{}/{}", GROUP_NAMES[g], sn, PSRC_CLASSES[pc])), w, w * 100), Kind::Mamv(g, sc, pc)));
                }
                if g == 4 || g == 5 {
                    classes.push((cls(leak(format!("{}/mul128/{}", GROUP_NAMES[g], sn)), 40, 4000), Kind::Mul128(g, sc)));
                }
                if g == 6 {
                    classes.push((cls(leak(format!("gls254/mul64mu/{}", sn)), 40, 4000), Kind::Mul64mu(sc)));
                }
                if HELPER_GROUPS.contains(&g) {
                    for mode in 0..3u8 {
                        let w = if mode == 2 { 20 } else { 90 };
                        classes.push((cls(leak(format!("{}/helper{}/{}", GROUP_NAMES[g], mode, sn)), w, w * 100), Kind::Helper(g, sc, mode)));
                    }
                }
            }
        }
        C10 { classes }
    }
}

fn u128_strategy() -> BoxedStrategy<u128> {
    prop_oneof![
        2 => any::<u128>(),
        2 => prop::sample::select(vec![0u128, 1, 2, 15, 16, 17, 31, 1 << 127, u128::MAX, u128::MAX - 1, u128::MAX - 15, u128::MAX - 16, 0xAAAAAAAAAAAAAAAAAAAAAAAAAAAAAAAA, 0x55555555555555555555555555555555, (1 << 64) - 1, 1 << 64, (1u128 << 125) - 1, 0x0F0F0F0F0F0F0F0F0F0F0F0F0F0F0F0F]),
        1 => (0u32..16).prop_map(|d| u128::MAX - d as u128),
        1 => (0u32..128, -1i32..=1).prop_map(|(s, d)| (1u128 << s).wrapping_add(d as u128)),
    ]
    .boxed()
}

fn u64_strategy() -> BoxedStrategy<u64> {
    prop_oneof![
        2 => any::<u64>(),
        2 => prop::sample::select(vec![0u64, 1, 2, 15, 16, 17, 31, 1 << 63, u64::MAX, u64::MAX - 1, u64::MAX - 15, 0xAAAAAAAAAAAAAAAA, 0x5555555555555555, (1 << 32) - 1, 1 << 32]),
        1 => (0u32..64, -1i32..=1).prop_map(|(s, d)| (1u64 << s).wrapping_add(d as u64)),
    ]
    .boxed()
}

impl Property for C10 {
    type Case = Case;
    fn id(&self) -> &'static str {
        "C10"
    }
    fn rule(&self) -> String {
        "Cases: u*P+v*G on all nine groups, the 128-bit multiplier variant (jq255e/s), the (u0+u1*mu) variant (gls254) and verify_helper_vartime (ed25519, ed448, p256, secp256k1, ristretto255, decaf448), with scalars from the structured classes (uniform, 0/1/n-1, 2^k+-1, small and unbalanced fractions a/b - the inputs of the internal split -, 5-bit digit patterns, small), multipliers 0, 1, 2^127, 2^128-16..2^128-1, alternating bit patterns, and points = generator (collision with the generator tables), uniform, special representatives (torsion, scaled projective, map outputs). Oracle: the same expression with the constant-time operators (the property's own reference) and, independently, the reference model; verify helpers: R = s*G - k*Q exactly / plus a low-order point / plus an arbitrary point, expected verdict = direct cofactored evaluation in the reference model; a panic is a violation. All cases count as non-trivial (every one exercises a fast path); helper cases are tagged by expected verdict. distinct = distinct case hash.".into()
    }
    fn shard_size(&self) -> u64 {
        8
    }
    fn shrink_iters(&self) -> u32 {
        100
    }
    fn classes(&self) -> Vec<ClassSpec> {
        self.classes.iter().map(|c| c.0.clone()).collect()
    }
    fn strategy(&self, class: usize) -> BoxedStrategy<Case> {
        // 1 case in 8: both multipliers come from {0, 1, 2, max / n-1} at the same time (all digits zero in both recodings,
        // single digits, ...), a combination the independent scalar classes produce with negligible probability
        let tiny = || prop_oneof![7 => Just(None), 1 => (0u8..4, 0u8..4).prop_map(Some)];
        fn tiny_scalar(g: usize, _like: &[u8], i: u8) -> Vec<u8> {
            let n = rg(g).order();
            let x = match i { 0 => num_bigint::BigUint::from(0u32), 1 => num_bigint::BigUint::from(1u32), 2 => num_bigint::BigUint::from(2u32), _ => n - 1u32 };
            x.to_bytes_le()
        }
        // 1 case in 4: the low z bits of both multipliers are cleared together (z up to 200), so that both recodings start with
        // z zero digits and the doublings pending at the end of the interleaved loop exceed any small bound
        let tzs = || prop_oneof![6 => Just(0u16), 1 => 1u16..=200, 1 => prop::sample::select(vec![31u16, 32, 33, 63, 64, 65, 127, 128, 129])];
        fn clear_low(x: &mut Vec<u8>, z: u16) { for i in 0..(z as usize) { if i / 8 < x.len() { x[i / 8] &= !(1u8 << (i % 8)); } } }
        fn tiny_u128(i: u8) -> u128 { match i { 0 => 0, 1 => 1, 2 => 2, _ => u128::MAX } }
        fn tiny_u64(i: u8) -> u64 { match i { 0 => 0, 1 => 1, 2 => 2, _ => u64::MAX } }
        match self.classes[class].1.clone() {
            Kind::Mamv(g, sc, pc) => (prop::bool::weighted(0.3).prop_flat_map(move |ch| pv_strategy(g, pc, ch)), gscalar(g, sc), any_gscalar(g), any::<bool>(), any::<u8>(), tiny(), tzs())
                .prop_map(move |(p, a, b, swap, form, t, z)| {
                    let (mut u, mut v) = if swap { (b, a) } else { (a, b) };
                    if let Some((i, j)) = t { u = tiny_scalar(g, &u, i); v = tiny_scalar(g, &v, j); }
                    clear_low(&mut u, z); clear_low(&mut v, z);
                    Case::Mamv { g: g as u8, p, u, v, form }
                })
                .boxed(),
            Kind::Mul128(g, sc) => (any_pv(g), u128_strategy(), gscalar(g, sc), tiny(), tzs())
                .prop_map(move |(p, mut u, mut v, t, z)| {
                    if let Some((i, j)) = t { u = tiny_u128(i); v = tiny_scalar(g, &v, j); }
                    if z > 0 { u = if z >= 128 { 0 } else { u >> z << z }; clear_low(&mut v, z); }
                    Case::Mul128 { g: g as u8, p, u, v }
                })
                .boxed(),
            Kind::Mul64mu(sc) => (any_pv(6), u64_strategy(), u64_strategy(), gscalar(6, sc), tiny(), 0u8..4)
                .prop_map(|(p, mut u0, mut u1, mut v, t, k)| {
                    if let Some((i, j)) = t { u0 = tiny_u64(i); u1 = tiny_u64(k); v = tiny_scalar(6, &v, j); }
                    Case::Mul64mu { p, u0, u1, v }
                })
                .boxed(),
            Kind::Helper(g, sc, mode) => (any_pv(g), any_gscalar(g), gscalar(g, sc), any_pv(g), tiny())
                .prop_map(move |(q, mut s, mut k, delta, t)| {
                    if let Some((i, j)) = t { s = tiny_scalar(g, &s, i); k = tiny_scalar(g, &k, j); }
                    Case::Helper { g: g as u8, q, s, k, delta, mode }
                })
                .boxed(),
        }
    }
    fn check(&self, c: &Case) -> Outcome {
        match c {
            Case::Mamv { g, p, u, v, form } => with_group!(*g as usize, check_mamv(p, u, v, *form)),
            Case::Mul128 { g, p, u, v } => {
                if *g == 4 { check_mul128::<crrl::jq255e::Point>(p, *u, v) } else { check_mul128::<crrl::jq255s::Point>(p, *u, v) }
            }
            Case::Mul64mu { p, u0, u1, v } => check_mul64mu(p, *u0, *u1, v),
            Case::Helper { g, q, s, k, delta, mode } => with_group!(*g as usize, check_helper(q, s, k, delta, *mode)),
        }
    }
}
