//! C19 - decoding and verification are total: no panic, no hang, status words in {0, 0xFFFFFFFF}.

use crate::engine::*;
use crate::fieldapi::{SplitKind, PF};
use crate::ftypes::leak;
use proptest::prelude::*;
use serde::{Deserialize, Serialize};

#[derive(Clone, Debug, Hash, Serialize, Deserialize)]
pub struct Case {
    pub target: u16,
    pub tname: String,
    /// byte-string arguments (public key / signature / message / context ...), of any length
    pub b: Vec<Vec<u8>>,
    /// integer arguments (rm, lengths ...)
    pub x: Vec<u64>,
}

pub const TARGETS: &[&str] = &[
    "field_decoders",
    "gfb_decoders",
    "point_decoders",
    "key_decoders",
    "ed25519_verify",
    "ed448_verify",
    "ed25519_verify_trunc",
    "p256_verify_trunc",
    "ecdsa_verify",
    "schnorr_verify",
    "ecdh",
    "maps",
    "frost_decode",
    "frost_verify",
    "lms_verify",
    "x25519_x448",
    "vartime_helpers",
    "splits",
];

fn arg<'a>(c: &'a Case, i: usize) -> &'a [u8] {
    c.b.get(i).map(|v| &v[..]).unwrap_or(&[])
}
fn xarg(c: &Case, i: usize) -> u64 {
    c.x.get(i).copied().unwrap_or(0)
}

fn field_decoders<T: PF>(b: &[u8], st: &mut Vec<u32>) {
    let (v, s) = T::decode_ct(b, 0);
    st.push(s);
    st.push(T::iszero(v));
    let (_, s) = T::decode_ct(b, 1);
    st.push(s);
    let _ = T::decode(b);
    let r = T::decode_reduce(b, 0);
    st.push(T::equals(r, v));
    if T::HAS_DECODE32 {
        st.push(T::decode32(b).1);
    }
    if T::SPLIT == SplitKind::I128 {
        let _ = T::split_i128(r);
    } else if T::SPLIT == SplitKind::Bytes {
        let _ = T::split_bytes(r);
    }
}

macro_rules! frost_decode_suite {
    ($m:ident, $b:expr, $st:expr) => {{
        use crrl::frost::$m::*;
        let b: &[u8] = $b;
        let _ = GroupPrivateKey::decode(b);
        let _ = GroupPublicKey::decode(b);
        let _ = SignerPrivateKeyShare::decode(b);
        let _ = SignerPublicKey::decode(b);
        let _ = VSSElement::decode_list(b);
        let _ = Nonce::decode(b);
        let _ = Commitment::decode(b);
        let _ = Commitment::decode_list(b);
        let _ = SignatureShare::decode(b);
        let _ = Signature::decode(b);
        let _: &mut Vec<u32> = $st;
    }};
}

macro_rules! frost_verify_suite {
    ($m:ident, $c:expr) => {{
        use crrl::frost::$m::*;
        let c: &Case = $c;
        // a genuine group key (from a tape) and, alternatively, a decoded arbitrary one
        let mut rng = crate::props::c09::TapeRng { tape: arg(c, 3).to_vec(), pos: 0 };
        let sk = GroupPrivateKey::generate(&mut rng);
        let gpk = GroupPublicKey::decode(arg(c, 0)).unwrap_or(sk.get_public_key());
        let _ = gpk.verify_esig(arg(c, 1), arg(c, 2));
        if let Some(sig) = Signature::decode(arg(c, 1)) {
            let _ = gpk.verify(sig, arg(c, 2));
        }
        // share verification against decoded lists (decode_list guarantees the documented ordering precondition)
        let (shares, vss) = KeySplitter::trusted_split(&mut rng, sk, 2, 3);
        if let Some(v) = VSSElement::decode_list(arg(c, 1)) {
            let _ = shares[0].verify_split(&v);
        }
        if let Some(s) = SignerPrivateKeyShare::decode(arg(c, 0)) {
            let _ = s.verify_split(&vss);
            let (n, cm) = s.commit(&mut rng);
            if let Some(l) = Commitment::decode_list(arg(c, 1)) {
                let _ = s.sign(n, cm, arg(c, 2), &l);
            }
        }
        if let (Some(l), Some(ss)) = (Commitment::decode_list(arg(c, 1)), SignatureShare::decode(arg(c, 0))) {
            let _ = shares[0].get_public_key().verify_signature_share(ss, &l, gpk, arg(c, 2));
            if let Some(co) = Coordinator::new(2, gpk) {
                let pks: Vec<SignerPublicKey> = shares.iter().map(|s| s.get_public_key()).collect();
                let _ = co.assemble_signature(&[ss], &l, &pks, arg(c, 2));
                let _ = co.choose(&l);
            }
        }
        if let Some(cm) = Commitment::decode(arg(c, 0)) {
            // choose / sign define their reaction to arbitrary (unsorted, duplicated) lists
            let (n, cm0) = shares[0].commit(&mut rng);
            let _ = shares[0].sign(n, cm0, arg(c, 2), &[cm, cm0, cm]);
            if let Some(co) = Coordinator::new(2, gpk) {
                let _ = co.choose(&[cm, cm0, cm]);
            }
        }
    }};
}

/// Executes one target; returns the status words observed (each must be 0 or 0xFFFFFFFF).
pub fn exec(c: &Case) -> Vec<u32> {
    let mut st: Vec<u32> = Vec::new();
    let b0 = arg(c, 0);
    let b1 = arg(c, 1);
    let b2 = arg(c, 2);
    let b3 = arg(c, 3);
    let ctx = &b3[..b3.len().min(255)];
    match TARGETS[c.target as usize % TARGETS.len()] {
        "field_decoders" => {
            macro_rules! go {
                ($t:ty) => {
                    field_decoders::<$t>(b0, &mut st);
                };
            }
            crate::for_all_pf!(go);
        }
        "gfb_decoders" => {
            use crrl::field::{GFb127, GFb254};
            st.push(GFb127::decode_ct(b0).1);
            st.push(GFb254::decode_ct(b0).1);
            let _ = GFb127::decode(b0);
            let _ = GFb254::decode(b0);
            if let Some(x) = GFb254::decode(b0) {
                st.push(x.iszero());
                st.push(x.equals(x.invert().invert()));
                let _ = x.trace();
                let _ = x.qsolve();
            }
        }
        "point_decoders" => {
            macro_rules! go {
                ($P:ty) => {{
                    let mut p = <$P>::BASE;
                    st.push(p.set_decode(b0));
                    st.push(p.isneutral());
                    st.push(p.equals(<$P>::BASE));
                    let _ = <$P>::decode(b0);
                }};
            }
            go!(crrl::ed25519::Point);
            go!(crrl::ed448::Point);
            go!(crrl::p256::Point);
            go!(crrl::secp256k1::Point);
            go!(crrl::jq255e::Point);
            go!(crrl::jq255s::Point);
            go!(crrl::gls254::Point);
            go!(crrl::ristretto255::Point);
            go!(crrl::decaf448::Point);
            if let Some(p) = crrl::ed25519::Point::decode(b0) {
                st.push(p.has_low_order());
                st.push(p.is_in_subgroup());
            }
            if let Some(p) = crrl::ed448::Point::decode(b0) {
                st.push(p.has_low_order());
                st.push(p.is_in_subgroup());
            }
        }
        "key_decoders" => {
            let _ = crrl::ed25519::PublicKey::decode(b0);
            let _ = crrl::ed25519::PrivateKey::decode(b0);
            let _ = crrl::ed448::PublicKey::decode(b0);
            let _ = crrl::ed448::PrivateKey::decode(b0);
            let _ = crrl::p256::PublicKey::decode(b0);
            let _ = crrl::p256::PrivateKey::decode(b0);
            let _ = crrl::secp256k1::PublicKey::decode(b0);
            let _ = crrl::secp256k1::PrivateKey::decode(b0);
            let _ = crrl::jq255e::PublicKey::decode(b0);
            let _ = crrl::jq255e::PrivateKey::decode(b0);
            let _ = crrl::jq255s::PublicKey::decode(b0);
            let _ = crrl::jq255s::PrivateKey::decode(b0);
            let _ = crrl::gls254::PublicKey::decode(b0);
            let _ = crrl::gls254::PrivateKey::decode(b0);
            let _ = crrl::p256::PrivateKey::prepare_truncate(b0);
        }
        "ed25519_verify" => {
            if let Some(k) = crrl::ed25519::PublicKey::decode(b0) {
                let _ = k.verify_raw(b1, b2);
                let _ = k.verify_ctx(b1, ctx, b2);
                let _ = k.verify_ph(b1, ctx, b2);
            }
        }
        "ed448_verify" => {
            if let Some(k) = crrl::ed448::PublicKey::decode(b0) {
                let _ = k.verify_raw(b1, b2);
                let _ = k.verify_ctx(b1, ctx, b2);
                let _ = k.verify_ph(b1, ctx, b2);
            }
        }
        "ed25519_verify_trunc" => {
            let rm = 8 + (xarg(c, 0) % 25) as usize;
            // bounded cost: large rm only on short searches (invalid prefixes exhaust the whole range)
            let rm = if b1.len() == 64 { rm.min(8 + (xarg(c, 0) % 17) as usize) } else { rm };
            if let Some(k) = crrl::ed25519::PublicKey::decode(b0) {
                let _ = k.verify_trunc_raw(b1, rm, b2);
                let _ = k.verify_trunc_ctx(b1, rm, ctx, b2);
                let _ = k.verify_trunc_ph(b1, rm, ctx, b2);
            }
        }
        "p256_verify_trunc" => {
            let rm = 8 + (xarg(c, 0) % 25) as usize;
            let rm = if b1.len() == 64 { rm.min(8 + (xarg(c, 0) % 13) as usize) } else { rm };
            if let Some(k) = crrl::p256::PublicKey::decode(b0) {
                let _ = k.verify_trunc_hash(b1, rm, b2);
            }
        }
        "ecdsa_verify" => {
            if let Some(k) = crrl::p256::PublicKey::decode(b0) {
                let _ = k.verify_hash(b1, b2);
            }
            if let Some(k) = crrl::secp256k1::PublicKey::decode(b0) {
                let _ = k.verify_hash(b1, b2);
            }
        }
        "schnorr_verify" => {
            let hn = String::from_utf8_lossy(&b3[..b3.len().min(40)]).to_string();
            if let Some(k) = crrl::jq255e::PublicKey::decode(b0) {
                let _ = k.verify(b1, &hn, b2);
            }
            if let Some(k) = crrl::jq255s::PublicKey::decode(b0) {
                let _ = k.verify(b1, &hn, b2);
            }
            if let Some(k) = crrl::gls254::PublicKey::decode(b0) {
                let _ = k.verify(b1, &hn, b2);
            }
        }
        "ecdh" => {
            let mut sk = [0u8; 32];
            for (i, v) in b1.iter().take(31).enumerate() {
                sk[i] = *v;
            }
            sk[0] |= 1;
            if let Some(k) = crrl::jq255e::PrivateKey::decode(&sk) {
                st.push(k.ECDH(b0).1);
            }
            if let Some(k) = crrl::jq255s::PrivateKey::decode(&sk) {
                st.push(k.ECDH(b0).1);
            }
            if let Some(k) = crrl::gls254::PrivateKey::decode(&sk) {
                st.push(k.ECDH(b0).1);
            }
        }
        "maps" => {
            let hn = String::from_utf8_lossy(&b3[..b3.len().min(40)]).to_string();
            st.push(crrl::jq255e::Point::hash_to_curve(&hn, b0).isneutral() & 0);
            let _ = crrl::jq255s::Point::hash_to_curve(&hn, b0);
            let _ = crrl::gls254::Point::hash_to_curve(&hn, b0);
            // documented precondition: exactly 64 / 112 bytes
            let mut m = b0.to_vec();
            m.resize(112, 0x5A);
            let _ = crrl::ristretto255::Point::one_way_map(&m[..64]);
            let _ = crrl::decaf448::Point::one_way_map(&m);
        }
        "frost_decode" => {
            frost_decode_suite!(ed25519, b0, &mut st);
            frost_decode_suite!(ristretto255, b0, &mut st);
            frost_decode_suite!(ed448, b0, &mut st);
            frost_decode_suite!(p256, b0, &mut st);
            frost_decode_suite!(secp256k1, b0, &mut st);
        }
        "frost_verify" => match xarg(c, 0) % 5 {
            0 => frost_verify_suite!(ed25519, c),
            1 => frost_verify_suite!(ristretto255, c),
            2 => frost_verify_suite!(ed448, c),
            3 => frost_verify_suite!(p256, c),
            _ => frost_verify_suite!(secp256k1, c),
        },
        "lms_verify" => {
            let mut rng = crate::props::c09::TapeRng { tape: b3.to_vec(), pos: 0 };
            macro_rules! go {
                ($m:ident) => {{
                    // key generation costs ~50 ms: one key per parameter set, copied for each call (PrivateKey is Copy)
                    static K: std::sync::OnceLock<crrl::lms::$m::PrivateKey> = std::sync::OnceLock::new();
                    let mut sk = *K.get_or_init(|| {
                        let mut r0 = crate::props::c09::TapeRng { tape: vec![1, 2, 3, 4, 5, 6, 7], pos: 0 };
                        crrl::lms::$m::PrivateKey::generate(&mut r0)
                    });
                    let pk = sk.compute_public();
                    let _ = pk.verify(b0, b1);
                    if let Some(s) = sk.sign(&mut rng, b1) {
                        // overlay the untrusted bytes on a genuine signature
                        let mut s2 = s.to_vec();
                        for (i, v) in b0.iter().enumerate() {
                            let l = s2.len();
                            s2[(i * 7 + xarg(c, 1) as usize) % l] ^= *v;
                        }
                        let _ = pk.verify(&s2, b1);
                        // a genuine signature cut at any length (all header words valid), alone and continued with untrusted bytes
                        let l = (xarg(c, 2) ^ xarg(c, 1).rotate_left(17)) as usize % (s.len() + 1);
                        let _ = pk.verify(&s[..l], b1);
                        let mut s3 = s[..l].to_vec();
                        s3.extend_from_slice(b0);
                        let _ = pk.verify(&s3, b1);
                    }
                }};
            }
            match xarg(c, 0) % 4 {
                0 => go!(LMS_SHA256_M32_H5_SHA256_N32_W8),
                1 => go!(LMS_SHA256_M24_H5_SHA256_N24_W8),
                2 => go!(LMS_SHAKE_M24_H5_SHAKE_N24_W8),
                _ => go!(LMS_SHAKE_M32_H5_SHAKE_N32_W8),
            }
        }
        "x25519_x448" => {
            let mut u = [0u8; 56];
            let mut k = [0u8; 56];
            for (i, v) in b0.iter().take(56).enumerate() {
                u[i] = *v;
            }
            for (i, v) in b1.iter().take(56).enumerate() {
                k[i] = *v;
            }
            let _ = crrl::x448::x448(&u, &k);
            let _ = crrl::x25519::x25519(u[..32].try_into().unwrap(), k[..32].try_into().unwrap());
        }
        "vartime_helpers" => {
            use crate::points::Grp;
            macro_rules! go {
                ($P:ty, $S:ty) => {{
                    let p = <$P as Grp>::decode(b0, 0).ok().flatten().unwrap_or(<$P as Grp>::base());
                    let q = <$P as Grp>::decode(b3, 0).ok().flatten().unwrap_or(<$P as Grp>::neutral());
                    let u = <$S>::decode_reduce(b1);
                    let v = <$S>::decode_reduce(b2);
                    let r = p.mul_add_mulgen_vartime(&u, &v);
                    st.push(r.isneutral());
                    st.push(r.equals(q));
                }};
            }
            match xarg(c, 0) % 9 {
                0 => { go!(crrl::ed25519::Point, crrl::ed25519::Scalar); let p = crrl::ed25519::Point::decode(b0).unwrap_or(crrl::ed25519::Point::BASE); let q = crrl::ed25519::Point::decode(b3).unwrap_or(crrl::ed25519::Point::BASE); let _ = p.verify_helper_vartime(&q, &crrl::ed25519::Scalar::decode_reduce(b1), &crrl::ed25519::Scalar::decode_reduce(b2)); }
                1 => { go!(crrl::ed448::Point, crrl::ed448::Scalar); let p = crrl::ed448::Point::decode(b0).unwrap_or(crrl::ed448::Point::BASE); let q = crrl::ed448::Point::decode(b3).unwrap_or(crrl::ed448::Point::BASE); let _ = p.verify_helper_vartime(&q, &crrl::ed448::Scalar::decode_reduce(b1), &crrl::ed448::Scalar::decode_reduce(b2)); }
                2 => { go!(crrl::p256::Point, crrl::p256::Scalar); let p = crrl::p256::Point::decode(b0).unwrap_or(crrl::p256::Point::BASE); let q = crrl::p256::Point::decode(b3).unwrap_or(crrl::p256::Point::BASE); let _ = p.verify_helper_vartime(&q, &crrl::p256::Scalar::decode_reduce(b1), &crrl::p256::Scalar::decode_reduce(b2)); }
                3 => { go!(crrl::secp256k1::Point, crrl::secp256k1::Scalar); let p = crrl::secp256k1::Point::decode(b0).unwrap_or(crrl::secp256k1::Point::BASE); let q = crrl::secp256k1::Point::decode(b3).unwrap_or(crrl::secp256k1::Point::BASE); let _ = p.verify_helper_vartime(&q, &crrl::secp256k1::Scalar::decode_reduce(b1), &crrl::secp256k1::Scalar::decode_reduce(b2)); }
                4 => { go!(crrl::jq255e::Point, crrl::jq255e::Scalar); let p = crrl::jq255e::Point::decode(b0).unwrap_or(crrl::jq255e::Point::BASE); let _ = p.mul128_add_mulgen_vartime(xarg(c, 1) as u128 | ((xarg(c, 2) as u128) << 64), &crrl::jq255e::Scalar::decode_reduce(b2)); }
                5 => { go!(crrl::jq255s::Point, crrl::jq255s::Scalar); let p = crrl::jq255s::Point::decode(b0).unwrap_or(crrl::jq255s::Point::BASE); let _ = p.mul128_add_mulgen_vartime(xarg(c, 1) as u128 | ((xarg(c, 2) as u128) << 64), &crrl::jq255s::Scalar::decode_reduce(b2)); }
                6 => { go!(crrl::gls254::Point, crrl::gls254::Scalar); let p = crrl::gls254::Point::decode(b0).unwrap_or(crrl::gls254::Point::BASE); let _ = p.mul64mu_add_mulgen_vartime(xarg(c, 1), xarg(c, 2), &crrl::gls254::Scalar::decode_reduce(b2)); }
                7 => { go!(crrl::ristretto255::Point, crrl::ristretto255::Scalar); let p = crrl::ristretto255::Point::decode(b0).unwrap_or(crrl::ristretto255::Point::BASE); let q = crrl::ristretto255::Point::decode(b3).unwrap_or(crrl::ristretto255::Point::BASE); let _ = p.verify_helper_vartime(&q, &crrl::ristretto255::Scalar::decode_reduce(b1), &crrl::ristretto255::Scalar::decode_reduce(b2)); }
                _ => { go!(crrl::decaf448::Point, crrl::decaf448::Scalar); let p = crrl::decaf448::Point::decode(b0).unwrap_or(crrl::decaf448::Point::BASE); let q = crrl::decaf448::Point::decode(b3).unwrap_or(crrl::decaf448::Point::BASE); let _ = p.verify_helper_vartime(&q, &crrl::decaf448::Scalar::decode_reduce(b1), &crrl::decaf448::Scalar::decode_reduce(b2)); }
            }
        }
        _ => {
            // splits: every scalar type, plus the endomorphism splits
            let (_, s0, _, s1) = crrl::gls254::Point::split_mu(&crrl::gls254::Scalar::decode_reduce(b0));
            st.push(s0);
            st.push(s1);
            let (_, s0, _, s1) = crrl::gls254::Point::split_mu_odd(&crrl::gls254::Scalar::decode_reduce(b0));
            st.push(s0);
            st.push(s1);
            let _ = crrl::ed25519::Scalar::decode_reduce(b0).split_vartime();
            let _ = crrl::p256::Scalar::decode_reduce(b0).split_vartime();
            let _ = crrl::secp256k1::Scalar::decode_reduce(b0).split_vartime();
            let _ = crrl::jq255e::Scalar::decode_reduce(b0).split_vartime();
            let _ = crrl::jq255s::Scalar::decode_reduce(b0).split_vartime();
            let _ = crrl::ed448::Scalar::decode_reduce(b0).split_vartime();
            let _ = crrl::field::GF25519::decode_reduce(b0).split_vartime();
            let _ = crrl::field::GFp256::decode_reduce(b0).split_vartime();
        }
    }
    st
}

/// byte layout used by the cargo-fuzz target `total` (and by `vrun corpus`)
pub fn case_from_bytes(data: &[u8]) -> Option<Case> {
    if data.len() < 8 {
        return None;
    }
    let target = (data[0] as usize % TARGETS.len()) as u16;
    let x = vec![data[1] as u64, u16::from_le_bytes([data[2], data[3]]) as u64 | ((data[4] as u64) << 56), data[5] as u64 | ((data[6] as u64) << 60)];
    let rest = &data[8..];
    let mut b: Vec<Vec<u8>> = Vec::new();
    let mut pos = 0usize;
    for i in 0..4 {
        if pos >= rest.len() {
            b.push(Vec::new());
            continue;
        }
        let l = if i == 3 { rest.len() - pos - 1 } else { (rest[pos] as usize).min(rest.len() - pos - 1) };
        b.push(rest[pos + 1..pos + 1 + l].to_vec());
        pos += 1 + l;
    }
    Some(Case { target, tname: TARGETS[target as usize].to_string(), b, x })
}

pub fn case_to_bytes(c: &Case) -> Vec<u8> {
    let mut d = vec![c.target as u8, xarg(c, 0) as u8, xarg(c, 1) as u8, (xarg(c, 1) >> 8) as u8, (xarg(c, 1) >> 56) as u8, xarg(c, 2) as u8, (xarg(c, 2) >> 60) as u8, 0];
    for i in 0..4 {
        let a = arg(c, i);
        let l = if i == 3 { a.len() } else { a.len().min(255) };
        d.push(l.min(255) as u8);
        d.extend_from_slice(&a[..l]);
    }
    d
}

pub fn check_case(c: &Case) -> Outcome {
    let mut acc = Acc::new();
    let name = TARGETS[c.target as usize % TARGETS.len()];
    acc.nt(c.b.iter().any(|x| !x.is_empty()));
    let r = guard(|| exec(c));
    match r {
        Err(sig) => {
            acc.check(false, || format!("C19:{name}:{sig}"), || format!("call did not return normally: {sig}"));
        }
        Ok(st) => {
            acc.evals = st.len().max(1) as u64;
            let bad = st.iter().find(|s| **s != 0 && **s != 0xFFFFFFFF);
            acc.check(bad.is_none(), || format!("C19:{name}:status_word"), || format!("status word {:08x} returned", bad.copied().unwrap_or(0)));
        }
    }
    acc.done()
}

pub struct C19 {
    classes: Vec<(ClassSpec, usize, usize)>,
}

pub const ARG_CLASSES: &[&str] = &["structured", "lengths", "uniform"];

impl C19 {
    pub fn new() -> Self {
        let mut classes = Vec::new();
        for (t, n) in TARGETS.iter().enumerate() {
            let w: u64 = match *n { "lms_verify" => 100, "frost_verify" => 400, "p256_verify_trunc" | "ed25519_verify_trunc" => 400, "vartime_helpers" | "splits" => 2000, _ => 2500 };
            for (a, an) in ARG_CLASSES.iter().enumerate() {
                classes.push((cls(leak(format!("{n}/{an}")), w, w * 30), t, a));
            }
        }
        C19 { classes }
    }
}

/// valid or near-valid objects for a target's main arguments (so that calls get past input validation)
fn structured_args(target: usize) -> BoxedStrategy<Vec<Vec<u8>>> {
    use crate::points::{enc_strategy, gscalar};
    use crate::props::c06::dec_strategy;
    let any_enc = (0usize..9).prop_flat_map(|g| (0..crate::props::c06::DEC_CLASSES.len()).prop_flat_map(move |k| dec_strategy(g, k)));
    let msg = prop::collection::vec(any::<u8>(), 0..80);
    let sig = prop_oneof![prop::collection::vec(any::<u8>(), 64), prop::collection::vec(any::<u8>(), 48), prop::collection::vec(any::<u8>(), 114), prop::collection::vec(any::<u8>(), 0..130)];
    // valid signatures (built with the reference model) so that verification runs to its end; optionally re-encoded
    let ed_valid = |c448: bool| {
        (prop::collection::vec(any::<u8>(), if c448 { 57 } else { 32 }), prop::collection::vec(any::<u8>(), 0..60))
            .prop_map(move |(seed, m)| {
                let sch = if c448 { refmodel::schemes::eddsa448() } else { refmodel::schemes::eddsa25519() };
                let sig = sch.sign(&seed, refmodel::schemes::EdVariant::Raw, &[], &m);
                let (_, _, pk) = sch.expand(&seed);
                vec![pk, sig, m, vec![]]
            })
            .boxed()
    };
    let ecdsa_valid = (any::<bool>(), prop::collection::vec(any::<u8>(), 40), prop::collection::vec(any::<u8>(), 0..70), prop::sample::select(vec![32usize, 32, 33, 34, 40, 48, 64, 65, 100]), any::<bool>())
        .prop_map(|(k1, d, hv, half, compressed)| {
            use refmodel::curves::RefGroup;
            let sch = if k1 { refmodel::schemes::ecdsa_secp256k1() } else { refmodel::schemes::ecdsa_p256() };
            let di = (refmodel::pf::from_le(&d) % (&sch.curve.order - 1u32)) + 1u32;
            let q = sch.public(&di);
            let pk = if compressed { sch.curve.encode(&q) } else { sch.curve.encode_uncompressed(&q) };
            let sig = sch.sign(&di, &hv, &[]).unwrap_or(vec![1u8; 64]);
            // zero-padded big-endian halves of `half` bytes
            let mut out = vec![0u8; half - 32];
            out.extend_from_slice(&sig[..32]);
            out.extend(vec![0u8; half - 32]);
            out.extend_from_slice(&sig[32..]);
            vec![pk, out, hv, vec![]]
        })
        .boxed();
    match TARGETS[target] {
        "ed25519_verify" | "ed25519_verify_trunc" => prop_oneof![1 => ed_valid(false), 1 => (enc_strategy(0), sig.clone(), msg.clone(), msg.clone()).prop_map(|(a, b, c, d)| vec![a, b, c, d])].boxed(),
        "ed448_verify" => prop_oneof![1 => ed_valid(true), 1 => (enc_strategy(1), sig.clone(), msg.clone(), msg.clone()).prop_map(|(a, b, c, d)| vec![a, b, c, d])].boxed(),
        "p256_verify_trunc" | "ecdsa_verify" => prop_oneof![2 => ecdsa_valid, 1 => (prop_oneof![enc_strategy(2), enc_strategy(3)], sig.clone(), msg.clone(), msg.clone()).prop_map(|(a, b, c, d)| vec![a, b, c, d])].boxed(),
        "schnorr_verify" | "ecdh" => (prop_oneof![enc_strategy(4), enc_strategy(5), enc_strategy(6)], sig, msg.clone(), Just(vec![])).prop_map(|(a, b, c, d)| vec![a, b, c, d]).boxed(),
        "vartime_helpers" => ((0usize..9).prop_flat_map(enc_strategy), (0usize..9, 0usize..7).prop_flat_map(|(g, c)| gscalar(g, c)), (0usize..9, 0usize..7).prop_flat_map(|(g, c)| gscalar(g, c)), (0usize..9).prop_flat_map(enc_strategy)).prop_map(|(a, b, c, d)| vec![a, b, c, d]).boxed(),
        "splits" => ((0usize..9, 0usize..7).prop_flat_map(|(g, c)| gscalar(g, c))).prop_map(|a| vec![a]).boxed(),
        "frost_decode" | "frost_verify" => {
            // concatenations of valid encodings (points / scalars) of the right sizes
            (prop::collection::vec(prop_oneof![enc_strategy(0), enc_strategy(1), enc_strategy(2), enc_strategy(3), enc_strategy(7), (0usize..4, 0usize..7).prop_flat_map(|(g, c)| gscalar(g, c)).prop_map(|mut s| { s.resize(32, 0); s })], 1..6), msg.clone(), msg.clone(), msg)
                .prop_map(|(parts, b, c, d)| vec![parts.concat(), b, c, d])
                .boxed()
        }
        _ => (any_enc, msg.clone(), msg.clone(), msg).prop_map(|(a, b, c, d)| vec![a, b, c, d]).boxed(),
    }
}

impl Property for C19 {
    type Case = Case;
    fn id(&self) -> &'static str {
        "C19"
    }
    fn rule(&self) -> String {
        "Each case = one target family (field / binary-field / point / key decoders of every type, Ed25519 / Ed448 verify in three variants, truncated verification with rm in 8..=32, ECDSA and Schnorr verify, ECDH, byte-to-group maps, every FROST decode function of the five suites, FROST verification entry points, LMS verify, X25519/X448, the variable-time helpers, the scalar splits) + up to four byte-string arguments (structured = valid / mutated encodings of the right kind so that the call gets past input validation; lengths = 0, 1, L-1, L, L+1, 2L, long; uniform) + integer arguments. Arguments stay inside the documented domains (ctx <= 255 bytes, rm in range, exact map input lengths, sorted FROST lists through decode_list). Oracle: the call returns (no panic - caught by catch_unwind; no hang - 60 s watchdog) and every status word returned is exactly 0 or 0xFFFFFFFF. Non-trivial: at least one non-empty argument. distinct = distinct case hash. The same executor is the body of the cargo-fuzz target run by the thorough tier.".into()
    }
    fn shard_size(&self) -> u64 {
        20
    }
    fn shrink_iters(&self) -> u32 {
        200
    }
    fn watchdog_secs(&self) -> u64 {
        60
    }
    fn classes(&self) -> Vec<ClassSpec> {
        self.classes.iter().map(|c| c.0.clone()).collect()
    }
    fn strategy(&self, class: usize) -> BoxedStrategy<Case> {
        let (_, t, a) = self.classes[class].clone();
        let name = TARGETS[t].to_string();
        let args: BoxedStrategy<Vec<Vec<u8>>> = match ARG_CLASSES[a] {
            "structured" => structured_args(t),
            "lengths" => prop::collection::vec(prop::sample::select(vec![0usize, 1, 15, 16, 17, 31, 32, 33, 47, 48, 49, 55, 56, 57, 58, 63, 64, 65, 66, 96, 113, 114, 115, 128, 200, 1000]).prop_flat_map(|n| prop_oneof![prop::collection::vec(any::<u8>(), n), Just(vec![0u8; n]), Just(vec![0xFFu8; n])]), 4).boxed(),
            _ => prop::collection::vec(prop::collection::vec(any::<u8>(), 0..140), 4).boxed(),
        };
        (args, prop::collection::vec(any::<u64>(), 3)).prop_map(move |(b, x)| Case { target: t as u16, tname: name.clone(), b, x }).boxed()
    }
    fn check(&self, c: &Case) -> Outcome {
        let mut c2 = c.clone();
        if let Some(i) = TARGETS.iter().position(|n| *n == c.tname) {
            c2.target = i as u16;
        }
        check_case(&c2)
    }
}
