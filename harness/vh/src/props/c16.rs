//! C16 - LMS never reuses a one-time key and accepts exactly its own signatures.

use crate::engine::*;
use crate::props::c09::TapeRng;
use proptest::prelude::*;
use refmodel::lms::{Params, PARAMS};
use serde::{Deserialize, Serialize};

#[derive(Clone, Debug, Hash, Serialize, Deserialize)]
pub enum Op {
    /// sign a message with the randomizer tape
    Sign(Vec<u8>, Vec<u8>),
    /// verify signature number k (mod count) under mutation m at position pos
    Verify(u8, u8, u16, u8),
}

#[derive(Clone, Debug, Hash, Serialize, Deserialize)]
pub struct Case {
    pub set: u8,
    pub keytape: Vec<u8>,
    pub ops: Vec<Op>,
    /// number of additional plain sign calls appended (to reach exhaustion and beyond)
    pub burst: u8,
}

pub const SET_NAMES: [&str; 4] = ["LMS_SHA256_M32_H5", "LMS_SHA256_M24_H5", "LMS_SHAKE_M24_H5", "LMS_SHAKE_M32_H5"];

trait Lms {
    fn sign(&mut self, tape: &[u8], msg: &[u8]) -> Option<Vec<u8>>;
    fn verify(&self, sig: &[u8], msg: &[u8]) -> bool;
    fn debug(&self) -> String;
}

macro_rules! lms_impl {
    ($w:ident, $m:ident) => {
        struct $w(crrl::lms::$m::PrivateKey, crrl::lms::$m::PublicKey);
        impl $w {
            fn new(tape: &[u8]) -> Self {
                let mut rng = TapeRng { tape: tape.to_vec(), pos: 0 };
                let sk = crrl::lms::$m::PrivateKey::generate(&mut rng);
                let pk = sk.compute_public();
                $w(sk, pk)
            }
        }
        impl Lms for $w {
            fn sign(&mut self, tape: &[u8], msg: &[u8]) -> Option<Vec<u8>> {
                let mut rng = TapeRng { tape: tape.to_vec(), pos: 0 };
                self.0.sign(&mut rng, msg).map(|s| s.to_vec())
            }
            fn verify(&self, sig: &[u8], msg: &[u8]) -> bool { self.1.verify(sig, msg) }
            fn debug(&self) -> String { format!("{:?}", self.0) }
        }
    };
}
lms_impl!(L0, LMS_SHA256_M32_H5_SHA256_N32_W8);
lms_impl!(L1, LMS_SHA256_M24_H5_SHA256_N24_W8);
lms_impl!(L2, LMS_SHAKE_M24_H5_SHAKE_N24_W8);
lms_impl!(L3, LMS_SHAKE_M32_H5_SHAKE_N32_W8);

fn tape_bytes(tape: &[u8], off: usize, n: usize) -> Vec<u8> {
    (0..n).map(|i| { let p = off + i; if tape.is_empty() { 0 } else { tape[p % tape.len()].wrapping_add((p / tape.len()) as u8) } }).collect()
}

fn check(c: &Case) -> Outcome {
    let mut acc = Acc::new();
    let set = (c.set % 4) as usize;
    let name = SET_NAMES[set];
    let par: Params = PARAMS[set];
    acc.nt(true);
    let r = guard(|| {
        let mut fails: Vec<(String, String)> = Vec::new();
        let mut evals = 0u64;
        let mut key: Box<dyn Lms> = match set { 0 => Box::new(L0::new(&c.keytape)), 1 => Box::new(L1::new(&c.keytape)), 2 => Box::new(L2::new(&c.keytape)), _ => Box::new(L3::new(&c.keytape)) };
        // reference key from the same tape: I = first 16 bytes, SEED = next m bytes
        let id = tape_bytes(&c.keytape, 0, 16);
        let seed = tape_bytes(&c.keytape, 16, par.m);
        let tree = par.tree(&id, &seed);
        let t1 = tree[1].clone();
        let mut sigs: Vec<(Vec<u8>, Vec<u8>)> = Vec::new();
        let mut count = 0u32;
        let mut ops = c.ops.clone();
        for i in 0..c.burst {
            ops.push(Op::Sign(vec![i], vec![i, 1, 2, 3]));
        }
        let mut tags: Vec<&'static str> = Vec::new();
        for op in &ops {
            match op {
                Op::Sign(msg, tape) => {
                    let before = key.debug();
                    let got = key.sign(tape, msg);
                    evals += 1;
                    if count < 32 {
                        match &got {
                            None => fails.push((format!("C16:{name}:sign_refused_early"), format!("sign call #{} returned None", count + 1))),
                            Some(s) => {
                                let q = u32::from_be_bytes(s[0..4].try_into().unwrap());
                                if q != count {
                                    fails.push((format!("C16:{name}:leaf_index"), format!("sign call #{} carries leaf index {} (expected {})", count + 1, q, count)));
                                }
                                // the state was advanced before returning
                                if key.debug() == before {
                                    fails.push((format!("C16:{name}:state_not_advanced"), "private key state unchanged after a successful sign".into()));
                                }
                                let cr = tape_bytes(tape, 0, par.n);
                                let exp = par.sign(&id, &seed, &tree, count, &cr, msg);
                                if *s != exp {
                                    fails.push((format!("C16:{name}:signature_bytes"), format!("signature #{} differs from the RFC 8554 reference (first difference at byte {:?})", count, s.iter().zip(exp.iter()).position(|(a, b)| a != b))));
                                }
                                if !key.verify(s, msg) {
                                    fails.push((format!("C16:{name}:own_signature_rejected"), format!("signature #{} rejected by verify", count)));
                                }
                                sigs.push((s.clone(), msg.clone()));
                            }
                        }
                        count += 1;
                    } else {
                        if !tags.contains(&"sign_after_exhaustion") { tags.push("sign_after_exhaustion"); }
                        if got.is_some() {
                            fails.push((format!("C16:{name}:signs_after_exhaustion"), format!("sign call #{} returned a signature with leaf {:?}", count + 1, got.as_ref().map(|s| u32::from_be_bytes(s[0..4].try_into().unwrap())))));
                        }
                        if key.debug() != before {
                            fails.push((format!("C16:{name}:state_changed_after_exhaustion"), "private key state changed by a refused sign call".into()));
                        }
                    }
                }
                Op::Verify(k, m, pos, val) => {
                    if sigs.is_empty() { continue; }
                    let (sig, msg) = &sigs[*k as usize % sigs.len()];
                    let mut s2 = sig.clone();
                    let mut m2 = msg.clone();
                    match m % 8 {
                        0 => {}
                        1 => { let p = *pos as usize % (8 * s2.len()); s2[p / 8] ^= 1 << (p % 8); }
                        2 => { if *val % 2 == 0 { s2.pop(); } else { let l = *pos as usize % s2.len(); s2.truncate(l); } } // one byte short, or cut anywhere
                        3 => { s2.push(*val); }
                        4 => { m2.push(*val); }
                        5 => { // leaf index replaced
                            if *val < 160 { let q = (*val as u32) % 40; s2[0..4].copy_from_slice(&q.to_be_bytes()); }
                            else { let b = *pos as usize % 32; s2[b / 8] ^= 1 << (b % 8); } // any single bit of the 32-bit q word
                        }
                        6 => { // type words
                            let off = if *val % 2 == 0 { 4 } else { 4 + par.ots_siglen() }; if *val % 3 == 0 { s2[off + 3] ^= 1 + (*val % 7); } else { let b = *pos as usize % 32; s2[off + b / 8] ^= 1 << (b % 8); } // any single bit of a type word
                        }
                        _ => { // a path node or y[i] replaced by another signature's
                            let (o, _) = &sigs[(*k as usize + 1) % sigs.len()];
                            let p = (*pos as usize % (s2.len() / 8)) * 8; let e = (p + 8).min(s2.len()); s2[p..e].copy_from_slice(&o[p..e]);
                        }
                    }
                    evals += 1;
                    let exp = par.verify(&id, &t1, &s2, &m2);
                    let got = key.verify(&s2, &m2);
                    if !tags.contains(&"verify_mutated") && m % 8 != 0 { tags.push("verify_mutated"); }
                    if got != exp {
                        fails.push((format!("C16:{name}:verify:{}", if exp { "rejects_valid" } else { "accepts_invalid" }), format!("verify(mutation {}) -> {} but the RFC 8554 reference says {}", m % 8, got, exp)));
                    }
                }
            }
        }
        (fails, evals, tags, count)
    });
    match r {
        Err(sig) => {
            acc.check(false, || format!("C16:{name}:{sig}"), || format!("history panicked: {sig}"));
        }
        Ok((fails, evals, tags, count)) => {
            for t in tags { acc.tag(t); }
            if count >= 32 { acc.tag("key_exhausted"); }
            acc.evals = evals;
            if let Some((s, m)) = fails.into_iter().next() {
                acc.check(false, || s, || m);
            }
        }
    }
    acc.done()
}

pub struct C16;

impl Property for C16 {
    type Case = Case;
    fn id(&self) -> &'static str {
        "C16"
    }
    fn rule(&self) -> String {
        "Each case = parameter set (4) + key generated from an RNG tape + a history of sign(msg, randomizer tape) and verify(signature k under a mutation: none, bit flip anywhere, truncated, extended, other message, leaf index replaced or one of its 32 bits flipped, any bit of a type word changed, 8 bytes spliced from another signature) followed by a burst of plain sign calls (so that most histories reach and pass the 32-leaf limit). Oracle: a model counter (k-th successful sign carries q = k-1; calls after the 32nd return None and leave the Debug rendering of the key unchanged; state advanced before the signature is returned), byte equality with the reference RFC 8554 signature for (I, SEED, q, C, msg), and agreement of verify with the reference verifier on every presented string. Every history is non-trivial; tags: key_exhausted, sign_after_exhaustion, verify_mutated. distinct = distinct case hash.".into()
    }
    fn shard_size(&self) -> u64 {
        1
    }
    fn watchdog_secs(&self) -> u64 {
        600
    }
    fn shrink_iters(&self) -> u32 {
        20
    }
    fn classes(&self) -> Vec<ClassSpec> {
        SET_NAMES.iter().map(|n| cls(n, 16, 2000)).collect()
    }
    fn strategy(&self, class: usize) -> BoxedStrategy<Case> {
        let set = class as u8;
        let op = prop_oneof![
            2 => (prop::collection::vec(any::<u8>(), 0..40), prop::collection::vec(any::<u8>(), 1..40)).prop_map(|(m, t)| Op::Sign(m, t)),
            3 => (any::<u8>(), 0u8..8, any::<u16>(), any::<u8>()).prop_map(|(k, m, p, v)| Op::Verify(k, m, p, v)),
        ];
        (prop::collection::vec(any::<u8>(), 1..64), prop::collection::vec(op, 0..14), prop::sample::select(vec![0u8, 20, 30, 33, 36, 40]))
            .prop_map(move |(keytape, ops, burst)| Case { set, keytape, ops, burst })
            .boxed()
    }
    fn check(&self, c: &Case) -> Outcome {
        check(c)
    }
}
