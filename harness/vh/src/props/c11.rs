//! C11 - scalar splitting contracts and termination.

use crate::engine::*;
use crate::fieldapi::{SplitKind, PF};
use crate::ftypes::{all_infos, leak, TypeInfo};
use crate::gen::{self, SCALAR_CLASSES};
use num_bigint::{BigInt, BigUint, Sign};
use num_integer::Integer;
use num_traits::{One, Signed, Zero};
use proptest::prelude::*;
use refmodel::pf;
use serde::{Deserialize, Serialize};
use std::sync::OnceLock;

#[derive(Clone, Debug, Hash, Serialize, Deserialize)]
pub enum Case {
    /// split_vartime of the field/scalar type `ty`; k given as little-endian bytes of an integer < modulus
    Split { ty: u16, tyname: String, k: Vec<u8> },
    /// endomorphism splits: which = 0 gls254 split_mu, 1 gls254 split_mu_odd, 2 jq255e split_mu (hook), 3 secp256k1 split_theta (hook)
    Endo { which: u8, k: Vec<u8> },
}

pub struct C11 {
    infos: Vec<TypeInfo>,
    table: Vec<fn(&Case) -> Outcome>,
    classes: Vec<(ClassSpec, Kind)>,
}

#[derive(Clone)]
enum Kind {
    Split(usize, usize),
    Endo(u8, usize),
}

fn to_bigint(x: &BigUint) -> BigInt {
    BigInt::from_biguint(Sign::Plus, x.clone())
}

/// signed little-endian bytes -> BigInt
fn signed_le(b: &[u8]) -> BigInt {
    BigInt::from_signed_bytes_le(b)
}

/// Reference Lagrange/Gauss reduction of the lattice {(c0,c1): c0 = k*c1 mod n}; returns the shortest vector.
pub fn ref_shortest(k: &BigUint, n: &BigUint) -> (BigInt, BigInt) {
    let mut u = (to_bigint(n), BigInt::zero());
    let mut v = (to_bigint(k), BigInt::one());
    let norm = |a: &(BigInt, BigInt)| &a.0 * &a.0 + &a.1 * &a.1;
    let mut nu = norm(&u);
    let mut nv = norm(&v);
    loop {
        if nu < nv {
            std::mem::swap(&mut u, &mut v);
            std::mem::swap(&mut nu, &mut nv);
        }
        if nv.is_zero() {
            return u;
        }
        // q = round(<u,v>/<v,v>)
        let sp = &u.0 * &v.0 + &u.1 * &v.1;
        let two = BigInt::from(2);
        let q: BigInt = (&sp * &two + &nv).div_floor(&(&nv * &two));
        if q.is_zero() {
            return v;
        }
        u = (&u.0 - &q * &v.0, &u.1 - &q * &v.1);
        nu = norm(&u);
        if nu >= nv {
            return v;
        }
    }
}

fn bitlen(x: &BigInt) -> u64 {
    x.abs().to_biguint().unwrap().bits()
}

fn check_split<T: PF>(case: &Case) -> Outcome {
    let Case::Split { k, .. } = case else { unreachable!() };
    let mut acc = Acc::new();
    let n = T::modulus();
    let ki = pf::from_le(k) % &n;
    let kb = pf::to_le(&ki, ((n.bits() + 7) / 8) as usize);
    let e = T::decode_reduce(&kb, 0);
    let ni = to_bigint(&n);
    let kbi = to_bigint(&ki);
    // non-triviality from the reference reduction
    let (r0, r1) = ref_shortest(&ki, &n);
    let (b0, b1) = (bitlen(&r0), bitlen(&r1));
    let half = n.bits() / 2;
    let unbalanced = b0.abs_diff(b1) >= 16;
    let near_limit = b0.max(b1) + 2 >= half.min(127);
    acc.nt(unbalanced || near_limit || ki.is_zero());
    if unbalanced {
        acc.tag("shortest_vector_unbalanced");
    }
    if near_limit {
        acc.tag("coordinate_near_limit");
    }
    match T::SPLIT {
        SplitKind::None => {}
        SplitKind::I128 => {
            let r = guard(|| T::split_i128(e));
            // documented correction range from the modulus class (computed, not typed)
            let nsq = &n * &n;
            let three = BigUint::from(3u32);
            let arange: i32 = if nsq <= (&three << 506) { 0 } else if nsq <= (&three << 510) { 1 } else { 2 };
            let ok = match &r {
                Ok((c0, c1)) => {
                    if ki.is_zero() {
                        *c0 == 0 && *c1 == 1
                    } else {
                        let mut found = false;
                        'o: for a in -arange..=arange {
                            for b in -arange..=arange {
                                let c0p: BigInt = BigInt::from(*c0) + (BigInt::from(a) << 128usize);
                                let c1p: BigInt = BigInt::from(*c1) + (BigInt::from(b) << 128usize);
                                let d: BigInt = &kbi * &c1p - &c0p;
                                let lhs = d.mod_floor_(&ni);
                                if lhs.is_zero() && !c1p.mod_floor_(&ni).is_zero() {
                                    found = true;
                                    break 'o;
                                }
                            }
                        }
                        found
                    }
                }
                Err(_) => false,
            };
            acc.check(ok, || format!("C11:{}:split_vartime{}", T::NAME, if r.is_err() { ":panic" } else { "" }), || format!("split_vartime(k={:x}) -> {:?} does not satisfy k*c1' = c0' (corrections within +-{}*2^128)", ki, r, arange));
        }
        SplitKind::Bytes => {
            let r = guard(|| T::split_bytes(e));
            let ok = match &r {
                Ok((c0, c1)) => {
                    let (c0, c1) = (signed_le(c0), signed_le(c1));
                    let d: BigInt = &kbi * &c1 - &c0;
                    let rel = d.mod_floor_(&ni).is_zero() && !c1.mod_floor_(&ni).is_zero();
                    // documented: c0^2 and c1^2 lower than 2p/sqrt(3)  <=>  3*c^4 < 4*p^2
                    let lim = &ni * &ni * 4;
                    let sz = |c: &BigInt| { let c2 = c * c; &c2 * &c2 * 3 < lim };
                    rel && sz(&c0) && sz(&c1)
                }
                Err(_) => false,
            };
            acc.check(ok, || format!("C11:{}:split_vartime{}", T::NAME, if r.is_err() { ":panic" } else { "" }), || format!("gfgen split_vartime(k={:x}) -> {:?}: k*c1 = c0 mod p, c1 != 0, c^2 < 2p/sqrt(3) violated", ki, r.as_ref().map(|(a, b)| (hex(a), hex(b)))));
        }
    }
    acc.done()
}

trait ModFloor {
    fn mod_floor_(&self, m: &BigInt) -> BigInt;
}
impl ModFloor for BigInt {
    fn mod_floor_(&self, m: &BigInt) -> BigInt {
        let r = self % m;
        if r.is_negative() { r + m } else { r }
    }
}

struct EndoInfo {
    name: &'static str,
    n: BigUint,
    /// candidate endomorphism eigenvalues (the roots of x^2+1 or x^2+x+1 mod n)
    roots: Vec<BigUint>,
    /// documented magnitude bound (exclusive)
    bound: BigUint,
    must_be_odd: bool,
}

fn endo_infos() -> &'static Vec<EndoInfo> {
    static I: OnceLock<Vec<EndoInfo>> = OnceLock::new();
    I.get_or_init(|| {
        use crate::fieldapi::t::*;
        let r_gls = ScGls254::modulus();
        let r_e = ScJq255e::modulus();
        let n_k1 = ScSecp256k1::modulus();
        let sqrt_m1 = |n: &BigUint| {
            let s = pf::sqrt_any(&(n - 1u32), n).expect("-1 must be a square");
            vec![s.clone(), n - s]
        };
        // primitive cube roots of unity mod n: (-1 +- sqrt(-3))/2
        let s3 = pf::sqrt_any(&(&n_k1 - 3u32), &n_k1).expect("-3 must be a square mod the secp256k1 order");
        let h = pf::inv(&BigUint::from(2u32), &n_k1);
        let c1 = pf::mul(&pf::sub(&s3, &BigUint::one(), &n_k1), &h, &n_k1);
        let c2 = pf::mul(&pf::sub(&pf::neg(&s3, &n_k1), &BigUint::one(), &n_k1), &h, &n_k1);
        // bounds: 2^126.5 and 2^127.5 "about" (gls254 docs); 2^127.54 (secp256k1 comments); jq255e: must fit the
        // 26-digit 5-bit recoding, i.e. below 2^127 (mul() comments)
        let b1265: BigUint = BigUint::from(0xB504F333F9DE6485u64) << (126usize - 63); // floor(2^126.5)
        let slack = |b: BigUint| &b + (&b >> 6); // "about": 1.6 % slack
        vec![
            EndoInfo { name: "gls254::split_mu", n: r_gls.clone(), roots: sqrt_m1(&r_gls), bound: slack(b1265.clone()), must_be_odd: false },
            EndoInfo { name: "gls254::split_mu_odd", n: r_gls.clone(), roots: sqrt_m1(&r_gls), bound: slack(b1265 << 1), must_be_odd: true },
            EndoInfo { name: "jq255e::split_mu", n: r_e.clone(), roots: sqrt_m1(&r_e), bound: BigUint::one() << 127usize, must_be_odd: false },
            EndoInfo { name: "secp256k1::split_theta", n: n_k1.clone(), roots: vec![c1, c2], bound: BigUint::from(0xBA2E8BA2E8BA2E8Cu64) << 64usize, must_be_odd: false },
        ]
    })
}

fn call_endo(which: u8, kb: &[u8]) -> (u128, u32, u128, u32) {
    match which {
        0 => crrl::gls254::Point::split_mu(&crrl::gls254::Scalar::decode_reduce(kb)),
        1 => crrl::gls254::Point::split_mu_odd(&crrl::gls254::Scalar::decode_reduce(kb)),
        #[cfg(feature = "hooks")]
        2 => crrl::jq255e::Point::verif_split_mu(&crrl::jq255e::Scalar::decode_reduce(kb)),
        #[cfg(feature = "hooks")]
        _ => crrl::secp256k1::Point::verif_split_theta(&crrl::secp256k1::Scalar::decode_reduce(kb)),
        #[cfg(not(feature = "hooks"))]
        _ => (0, 0, 0, 0),
    }
}

/// which of the candidate eigenvalues the implementation uses (calibrated once on a fixed scalar,
/// then required for every input)
fn calibrated_root(which: u8) -> Option<BigUint> {
    static R: OnceLock<Vec<Option<BigUint>>> = OnceLock::new();
    R.get_or_init(|| {
        (0..4u8)
            .map(|w| {
                let info = &endo_infos()[w as usize];
                if w == 0 || w == 1 {
                    // published constant: gls254::Scalar::MU
                    let mu = pf::from_le(&crrl::gls254::Scalar::MU.encode());
                    return if info.roots.contains(&mu) { Some(mu) } else { None };
                }
                let k = (BigUint::one() << 200) + 12345u32;
                let kb = pf::to_le(&(&k % &info.n), 32);
                let (a0, s0, a1, s1) = guard(|| call_endo(w, &kb)).ok()?;
                let k0 = if s0 != 0 { pf::neg(&BigUint::from(a0), &info.n) } else { BigUint::from(a0) };
                let k1 = if s1 != 0 { pf::neg(&BigUint::from(a1), &info.n) } else { BigUint::from(a1) };
                info.roots.iter().find(|r| pf::add(&k0, &pf::mul(&k1, r, &info.n), &info.n) == &k % &info.n).cloned()
            })
            .collect()
    })[which as usize]
        .clone()
}

fn check_endo(which: u8, k: &[u8]) -> Outcome {
    let mut acc = Acc::new();
    let info = &endo_infos()[which as usize % 4];
    let ki = pf::from_le(k) % &info.n;
    let kb = pf::to_le(&ki, 32);
    acc.nt(true);
    let Some(mu) = calibrated_root(which % 4) else {
        return Outcome::fail(format!("C11:{}:eigenvalue", info.name), "no root of the endomorphism equation satisfies k = k0 + k1*mu on the calibration scalar");
    };
    let r = guard(|| call_endo(which % 4, &kb));
    let ok = match &r {
        Ok((a0, s0, a1, s1)) => {
            let signs_ok = (*s0 == 0 || *s0 == 0xFFFFFFFF) && (*s1 == 0 || *s1 == 0xFFFFFFFF);
            let (m0, m1) = (BigUint::from(*a0), BigUint::from(*a1));
            let k0 = if *s0 != 0 { pf::neg(&m0, &info.n) } else { m0.clone() };
            let k1 = if *s1 != 0 { pf::neg(&m1, &info.n) } else { m1.clone() };
            let rel = pf::add(&k0, &pf::mul(&k1, &mu, &info.n), &info.n) == ki;
            let odd = !info.must_be_odd || (m0.bit(0) && m1.bit(0));
            if m0.bits().max(m1.bits()) >= info.bound.bits() - 1 {
                acc.tag("half_near_bound");
            }
            signs_ok && rel && m0 < info.bound && m1 < info.bound && odd
        }
        Err(_) => false,
    };
    acc.check(ok, || format!("C11:{}{}", info.name, if r.is_err() { ":panic" } else { "" }), || format!("{}(k={:x}) -> {:?}: k = k0 + k1*mu mod r with |k0|,|k1| < {:x}{} violated", info.name, ki, r, info.bound, if info.must_be_odd { ", both odd" } else { "" }));
    acc.done()
}

impl C11 {
    pub fn new() -> Self {
        let infos = all_infos();
        let mut table: Vec<fn(&Case) -> Outcome> = Vec::new();
        macro_rules! push {
            ($t:ty) => {
                table.push(check_split::<$t> as fn(&Case) -> Outcome);
            };
        }
        crate::for_all_pf!(push);
        let mut classes = Vec::new();
        for (ti, info) in infos.iter().enumerate() {
            if info.split == SplitKind::None {
                continue;
            }
            for (sc, n) in SCALAR_CLASSES.iter().enumerate() {
                let w = if n.starts_with("fraction") { 3 } else { 1 };
                classes.push((cls(leak(format!("{}/{}", info.name, n)), 1500 * w, 150_000 * w), Kind::Split(ti, sc)));
            }
        }
        let nendo = if cfg!(feature = "hooks") { 4 } else { 2 };
        for w in 0..nendo {
            for (sc, n) in SCALAR_CLASSES.iter().enumerate() {
                classes.push((cls(leak(format!("{}/{}", endo_infos()[w].name, n)), 3000, 300_000), Kind::Endo(w as u8, sc)));
            }
        }
        C11 { infos, table, classes }
    }
}

impl Property for C11 {
    type Case = Case;
    fn id(&self) -> &'static str {
        "C11"
    }
    fn rule(&self) -> String {
        "Split cases: a scalar k < n from the structured classes (uniform, edges, 2^k+-1 and negations, round(j*n/b) and a/b mod n with |a|,|b| in 0..130 bits, 5-bit digit patterns, small) is given to split_vartime of every GF255 / ModInt256 / gfgen type (crrl scalars and harness-defined moduli below, between and above the documented 1.73*2^253 / 1.73*2^255 limits, gfgen with N = 1..8 limbs); oracle = the documented contract: k*c1' = c0' mod n with c1' != 0 mod n, corrections a,b*2^128 within the range the documentation gives for the modulus class (computed from the modulus), zero -> (0,1); gfgen: exact relation and c^2 < 2p/sqrt(3). Endo cases: gls254 split_mu/split_mu_odd, jq255e split_mu and secp256k1 split_theta (hooks): k = k0 + k1*mu mod r for the eigenvalue calibrated once, magnitudes below the documented bound, oddness for split_mu_odd. Every call is guarded (panic = violation) and watched by a 20 s watchdog (no return = violation). Non-trivial: reference Lagrange reduction says the shortest vector is unbalanced by >= 16 bits or within 2 bits of the limit, or k = 0; every Endo case. distinct = distinct case hash.".into()
    }
    fn watchdog_secs(&self) -> u64 {
        20
    }
    fn classes(&self) -> Vec<ClassSpec> {
        self.classes.iter().map(|c| c.0.clone()).collect()
    }
    fn strategy(&self, class: usize) -> BoxedStrategy<Case> {
        match self.classes[class].1.clone() {
            Kind::Split(ty, sc) => {
                let info = &self.infos[ty];
                let name = info.name.to_string();
                gen::scalar_strategy(&info.modulus, sc).prop_map(move |k| Case::Split { ty: ty as u16, tyname: name.clone(), k: k.to_bytes_le() }).boxed()
            }
            Kind::Endo(w, sc) => {
                let n = endo_infos()[w as usize].n.clone();
                gen::scalar_strategy(&n, sc).prop_map(move |k| Case::Endo { which: w, k: k.to_bytes_le() }).boxed()
            }
        }
    }
    fn check(&self, case: &Case) -> Outcome {
        match case {
            Case::Endo { which, k } => check_endo(*which, k),
            Case::Split { ty, tyname, .. } => {
                let mut i = *ty as usize;
                if i >= self.infos.len() || self.infos[i].name != tyname {
                    match self.infos.iter().position(|x| x.name == tyname) {
                        Some(j) => i = j,
                        None => return Outcome::pass(false),
                    }
                }
                (self.table[i])(case)
            }
        }
    }
}
