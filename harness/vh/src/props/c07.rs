//! C07 - Ed25519 / Ed448 verification equals the strict cofactored RFC 8032 predicate; signing is RFC 8032.

use crate::engine::*;
use crate::ftypes::leak;
use crate::points::refs;
use num_bigint::BigUint;
use proptest::prelude::*;
use refmodel::curves::RefGroup;
use refmodel::pf;
use refmodel::schemes::{EdDsa, EdVariant};
use serde::{Deserialize, Serialize};
use std::sync::OnceLock;

#[derive(Clone, Debug, Hash, Serialize, Deserialize)]
pub struct Msg {
    pub v: u8,
    pub ctx: Vec<u8>,
    pub m: Vec<u8>,
}

#[derive(Clone, Debug, Hash, Serialize, Deserialize)]
pub enum Case {
    /// honest signature, then an optional mutation of (pk, sig, msg, ctx, variant)
    Sign { c: u8, seed: Vec<u8>, msg: Msg, mutation: u8, pos: u16, val: u8 },
    /// A = a*B + T_ta, R = r*B + T_tr, S = r + k*a (+ smod*L): valid under the cofactored equation when smod = 0
    Torsion { c: u8, a: Vec<u8>, r: Vec<u8>, ta: u8, tr: u8, smod: u8, msg: Msg },
    /// low-order public key: R = S*B + T_tr is valid for every message, S chosen freely
    LowOrder { c: u8, ta: u8, tr: u8, s: Vec<u8>, msg: Msg },
    /// non-canonical encodings of points with x = 0 or small y: as public key (with R = S*B) and as R (with a low-order key and S = 0):
    /// a lenient decoder would make the cofactored equation hold; the strict predicate rejects
    NonCanon { c: u8, which: u8, form: u8, s: Vec<u8>, msg: Msg },
    /// arbitrary bytes
    Raw { c: u8, pk: Vec<u8>, sig: Vec<u8>, msg: Msg },
}

fn schemes() -> &'static [EdDsa; 2] {
    static S: OnceLock<[EdDsa; 2]> = OnceLock::new();
    S.get_or_init(|| [refmodel::schemes::eddsa25519(), refmodel::schemes::eddsa448()])
}

fn variant(v: u8) -> EdVariant {
    match v % 3 { 0 => EdVariant::Raw, 1 => EdVariant::Ctx, _ => EdVariant::Ph }
}

/// crrl: sign with the given variant
fn crrl_sign(c: u8, seed: &[u8], msg: &Msg) -> Vec<u8> {
    if c == 0 {
        let sk = crrl::ed25519::PrivateKey::from_seed(seed);
        match variant(msg.v) {
            EdVariant::Raw => sk.sign_raw(&msg.m).to_vec(),
            EdVariant::Ctx => sk.sign_ctx(&msg.ctx, &msg.m).to_vec(),
            EdVariant::Ph => sk.sign_ph(&msg.ctx, &msg.m).to_vec(),
        }
    } else {
        let sk = crrl::ed448::PrivateKey::from_seed(seed);
        match variant(msg.v) {
            EdVariant::Raw => sk.sign_raw(&msg.m).to_vec(),
            EdVariant::Ctx => sk.sign_ctx(&msg.ctx, &msg.m).to_vec(),
            EdVariant::Ph => sk.sign_ph(&msg.ctx, &msg.m).to_vec(),
        }
    }
}

fn crrl_pk_of_seed(c: u8, seed: &[u8]) -> Vec<u8> {
    if c == 0 { crrl::ed25519::PrivateKey::from_seed(seed).public_key.encode().to_vec() } else { crrl::ed448::PrivateKey::from_seed(seed).public_key.encode().to_vec() }
}

/// crrl: decode the key and verify; None = public key rejected
fn crrl_verify(c: u8, pk: &[u8], sig: &[u8], msg: &Msg) -> Option<bool> {
    if c == 0 {
        let k = crrl::ed25519::PublicKey::decode(pk)?;
        Some(match variant(msg.v) {
            EdVariant::Raw => k.verify_raw(sig, &msg.m),
            EdVariant::Ctx => k.verify_ctx(sig, &msg.ctx, &msg.m),
            EdVariant::Ph => k.verify_ph(sig, &msg.ctx, &msg.m),
        })
    } else {
        let k = crrl::ed448::PublicKey::decode(pk)?;
        Some(match variant(msg.v) {
            EdVariant::Raw => k.verify_raw(sig, &msg.m),
            EdVariant::Ctx => k.verify_ctx(sig, &msg.ctx, &msg.m),
            EdVariant::Ph => k.verify_ph(sig, &msg.ctx, &msg.m),
        })
    }
}

/// the reference context: Raw variants ignore ctx (Ed25519: no dom; Ed448: dom4(0, ""))
fn ref_ctx<'a>(msg: &'a Msg) -> &'a [u8] {
    if variant(msg.v) == EdVariant::Raw { &[] } else { &msg.ctx }
}

fn compare(acc: &mut Acc, name: &str, c: u8, pk: &[u8], sig: &[u8], msg: &Msg) {
    let sch = &schemes()[c as usize];
    let (exp, reason) = sch.verify(pk, sig, variant(msg.v), ref_ctx(msg), &msg.m);
    acc.tag(match reason {
        "valid" => "ref_accepts",
        "bad_public_key" => "ref_rejects_public_key",
        "bad_length" => "ref_rejects_length",
        "bad_R" => "ref_rejects_R",
        "S_not_canonical" => "ref_rejects_S",
        _ => "ref_rejects_equation",
    });
    let got = guard(|| crrl_verify(c, pk, sig, msg));
    let ok = match (&got, reason) {
        (Ok(None), "bad_public_key") => true,
        (Ok(None), _) => false,
        (Ok(Some(_)), "bad_public_key") => false,
        (Ok(Some(b)), _) => *b == exp,
        (Err(_), _) => false,
    };
    acc.check(
        ok,
        || format!("C07:{name}:verify:{}", if got.is_err() { "panic" } else if exp { "rejects_valid" } else { "accepts_invalid" }),
        || format!("verify(pk={}, sig={}, v={}, ctx={}, m={}) -> {:?}; reference: {} ({})", hex(pk), hex(sig), msg.v % 3, hex(&msg.ctx), hex(&msg.m), got, exp, reason),
    );
}

fn check(case: &Case) -> Outcome {
    let mut acc = Acc::new();
    acc.nt(true);
    match case {
        Case::Sign { c, seed, msg, mutation, pos, val } => {
            let name = if *c == 0 { "ed25519" } else { "ed448" };
            let sch = &schemes()[*c as usize];
            let exp_sig = sch.sign(seed, variant(msg.v), ref_ctx(msg), &msg.m);
            let (_, _, exp_pk) = sch.expand(seed);
            let got_sig = guard(|| crrl_sign(*c, seed, msg));
            acc.check(got_sig.as_ref().ok() == Some(&exp_sig), || format!("C07:{name}:sign"), || format!("sign(seed={}, v={}, ctx={}, m={}) -> {:?}, RFC 8032 reference {}", hex(seed), msg.v % 3, hex(&msg.ctx), hex(&msg.m), got_sig.as_ref().map(|s| hex(s)), hex(&exp_sig)));
            let got_pk = guard(|| crrl_pk_of_seed(*c, seed));
            acc.check(got_pk.as_ref().ok() == Some(&exp_pk), || format!("C07:{name}:public_key"), || format!("public key of seed {} -> {:?}, reference {}", hex(seed), got_pk.as_ref().map(|s| hex(s)), hex(&exp_pk)));
            // verification of the (possibly mutated) tuple
            let mut pk = exp_pk.clone();
            let mut sig = exp_sig.clone();
            let mut m2 = msg.clone();
            let l = sch.key_len();
            match mutation % 11 {
                0 => {}
                1 => { let p = *pos as usize % (8 * sig.len()); sig[p / 8] ^= 1 << (p % 8); }
                10 => {
                    // one of the top bits of the last byte of S / of R / of the key (the bits above the scalar or coordinate
                    // range: S + 2^k for k >= bits(L), the sign bit, the Ed448 padding byte), set or flipped
                    let which = *pos as usize % 3;
                    let bit = 0x80u8 >> (*val % 4);
                    match which {
                        0 => { let n = sig.len(); sig[n - 1] ^= bit; }
                        1 => { sig[l - 1] ^= bit; }
                        _ => { let n = pk.len(); pk[n - 1] ^= bit; }
                    }
                }
                2 => { let p = *pos as usize % (8 * pk.len()); pk[p / 8] ^= 1 << (p % 8); }
                3 => { if m2.m.is_empty() { m2.m.push(*val) } else { let p = *pos as usize % m2.m.len(); m2.m[p] ^= 1 | *val; } }
                4 => { m2.ctx.push(*val); m2.ctx.truncate(255); if m2.ctx == msg.ctx { m2.ctx.clear(); } }
                5 => { m2.v = msg.v.wrapping_add(1 + (*val % 2)); }
                6 => { // S + L
                    let s = pf::from_le(&sig[l..]) + &sch.curve.order;
                    if s.bits() as usize <= 8 * l { let e = pf::to_le(&s, l); sig[l..].copy_from_slice(&e); }
                }
                7 => { sig.truncate(sig.len() - 1 - (*pos as usize % 3)); }
                8 => { sig.push(*val); if *pos % 2 == 0 { sig.push(0); } }
                _ => { // R replaced by R + low-order point (changes k, so normally invalid)
                    let r = sch.curve.decode(&sig[..l]).unwrap();
                    let t = &refs().torsion[*c as usize];
                    let r2 = sch.curve.add(&r, &t[1 + (*val as usize % (t.len() - 1))]);
                    let e = sch.curve.encode(&r2);
                    sig[..l].copy_from_slice(&e);
                }
            }
            compare(&mut acc, name, *c, &pk, &sig, &m2);
        }
        Case::Torsion { c, a, r, ta, tr, smod, msg } => {
            let name = if *c == 0 { "ed25519" } else { "ed448" };
            let sch = &schemes()[*c as usize];
            let cv = &sch.curve;
            let n = &cv.order;
            let l = sch.key_len();
            let t = &refs().torsion[*c as usize];
            let (ai, ri) = (pf::from_le(a) % n, pf::from_le(r) % n);
            let apt = cv.add(&cv.mul(&ai, &cv.base()), &t[*ta as usize % t.len()]);
            let rpt = cv.add(&cv.mul(&ri, &cv.base()), &t[*tr as usize % t.len()]);
            let pk = cv.encode(&apt);
            let renc = cv.encode(&rpt);
            let dom = sch.dom(variant(msg.v), ref_ctx(msg));
            let mut hm = dom.clone();
            hm.extend_from_slice(&renc);
            hm.extend_from_slice(&pk);
            hm.extend_from_slice(&msg.m);
            let hv = if *c == 0 { refmodel::hashes::sha512(&hm) } else { refmodel::hashes::shake256(&hm, 114) };
            let k = pf::from_le(&hv) % n;
            let mut s = (&ri + &k * &ai) % n;
            if smod % 4 == 1 {
                s += n;
            }
            let mut sig = renc.clone();
            sig.extend(pf::to_le(&s, l));
            if *ta as usize % t.len() != 0 || *tr as usize % t.len() != 0 {
                acc.tag("torsion_component_in_A_or_R");
            }
            compare(&mut acc, name, *c, &pk, &sig, msg);
        }
        Case::LowOrder { c, ta, tr, s, msg } => {
            let name = if *c == 0 { "ed25519" } else { "ed448" };
            let sch = &schemes()[*c as usize];
            let cv = &sch.curve;
            let l = sch.key_len();
            let t = &refs().torsion[*c as usize];
            let pk = cv.encode(&t[*ta as usize % t.len()]);
            let mut sb = s.clone();
            sb.resize(l, 0);
            let si = pf::from_le(&sb);
            let rpt = cv.add(&cv.mul(&(&si % &cv.order), &cv.base()), &t[*tr as usize % t.len()]);
            let mut sig = cv.encode(&rpt);
            sig.extend_from_slice(&sb);
            acc.tag("low_order_public_key");
            compare(&mut acc, name, *c, &pk, &sig, msg);
        }
        Case::NonCanon { c, which, form, s, msg } => {
            let name = if *c == 0 { "ed25519" } else { "ed448" };
            let sch = &schemes()[*c as usize];
            let cv = &sch.curve;
            let l = sch.key_len();
            let p = &cv.p;
            // candidate non-canonical strings: (y = 1, sign 1), (y = p - 1, sign 1), y + p for y in 0..19 with either sign
            let mut forms: Vec<Vec<u8>> = Vec::new();
            for (y, sign) in [(BigUint::from(1u32), true), (p - 1u32, true)] {
                let mut e = pf::to_le(&y, l);
                if sign { e[l - 1] |= 0x80; }
                forms.push(e);
            }
            for y in 0u32..19 {
                let yp = BigUint::from(y) + p;
                if yp.bits() as usize <= 8 * l - 1 {
                    for sign in [0u8, 0x80] {
                        let mut e = pf::to_le(&yp, l);
                        e[l - 1] |= sign;
                        forms.push(e);
                    }
                }
            }
            let bad = forms[*form as usize % forms.len()].clone();
            let t = &refs().torsion[*c as usize];
            let mut sb = s.clone();
            sb.resize(l, 0);
            let si = pf::from_le(&sb) % &cv.order;
            let (pk, sig) = if which % 2 == 0 {
                // non-canonical public key, R = S*B: valid for a decoder that maps the string to a low-order point
                let mut sig = cv.encode(&cv.mul(&si, &cv.base()));
                sig.extend(pf::to_le(&si, l));
                (bad, sig)
            } else {
                // low-order (canonical) key, non-canonical R, S = 0
                let pk = cv.encode(&t[(*form as usize / 7) % t.len()]);
                let mut sig = bad;
                sig.extend(vec![0u8; l]);
                (pk, sig)
            };
            acc.tag("noncanonical_A_or_R");
            compare(&mut acc, name, *c, &pk, &sig, msg);
        }
        Case::Raw { c, pk, sig, msg } => {
            let name = if *c == 0 { "ed25519" } else { "ed448" };
            compare(&mut acc, name, *c, pk, sig, msg);
        }
    }
    acc.done()
}

pub struct C07 {
    classes: Vec<(ClassSpec, u8, u8)>,
}

impl C07 {
    pub fn new() -> Self {
        let mut classes = Vec::new();
        for c in 0..2u8 {
            let n = if c == 0 { "ed25519" } else { "ed448" };
            classes.push((cls(leak(format!("{n}/honest")), 4000, 60_000), c, 0));
            classes.push((cls(leak(format!("{n}/mutated")), 1500, 60_000), c, 1));
            classes.push((cls(leak(format!("{n}/torsion")), 800, 40_000), c, 2));
            classes.push((cls(leak(format!("{n}/low_order_key")), 600, 30_000), c, 3));
            classes.push((cls(leak(format!("{n}/raw_bytes")), 600, 30_000), c, 4));
            classes.push((cls(leak(format!("{n}/noncanonical_encodings")), 300, 30_000), c, 5));
        }
        C07 { classes }
    }
}

fn msg_strategy() -> BoxedStrategy<Msg> {
    (
        0u8..3,
        prop_oneof![2 => Just(vec![]), 2 => prop::collection::vec(any::<u8>(), 1..8), 1 => prop::collection::vec(any::<u8>(), 255), 1 => prop::collection::vec(any::<u8>(), 0..=255)],
        prop_oneof![1 => Just(vec![]), 3 => prop::collection::vec(any::<u8>(), 0..40), 1 => prop::collection::vec(any::<u8>(), 64), 1 => prop::collection::vec(any::<u8>(), 100..300)],
    )
        .prop_map(|(v, ctx, m)| Msg { v, ctx, m })
        .boxed()
}

fn s_strategy(c: u8) -> BoxedStrategy<Vec<u8>> {
    let n = schemes()[c as usize].curve.order.clone();
    let l = schemes()[c as usize].key_len();
    let fixed: Vec<BigUint> = vec![BigUint::from(0u32), BigUint::from(1u32), &n - 1u32, n.clone(), &n + 1u32, &n * 2u32, BigUint::from(1u32) << (n.bits() - 1), (BigUint::from(1u32) << n.bits()) - 1u32, (BigUint::from(1u32) << (8 * l as u64 - 1)) - 1u32];
    prop_oneof![
        2 => prop::sample::select(fixed).prop_map(move |x| pf::to_le(&x, l)),
        2 => crate::gen::any_scalar(&n).prop_map(move |x| pf::to_le(&x, l)),
        1 => prop::collection::vec(any::<u8>(), l),
    ]
    .boxed()
}

impl Property for C07 {
    type Case = Case;
    fn id(&self) -> &'static str {
        "C07"
    }
    fn rule(&self) -> String {
        "Cases (Ed25519 and Ed448; pure / context / pre-hashed variants; ctx length 0, 1..7, 255; messages 0..300 bytes): honest = sign_* from a seed must equal the reference RFC 8032 signature byte for byte (and the public key) and verify; mutated = one change to the tuple (bit flip in sig / key, message, context, variant, S+L, truncated / extended signature, R shifted by a low-order point); torsion = A = aB+T, R = rB+T', S = r+ka (+L): valid under the cofactored equation for every torsion combination; low-order key = A low-order, R = S*B+T, S in {0,1,L-1,L,L+1,2L,2^252,...,random}: valid for every message iff S < L; raw = arbitrary key / signature bytes. Oracle: the strict cofactored RFC 8032 predicate in the reference model (canonical A and R, S < L, [c](SB - R - kA) = 0 with dom2/dom4 prefixes). Every case is non-trivial; tags record the reference verdict and reason. distinct = distinct case hash.".into()
    }
    fn shard_size(&self) -> u64 {
        25
    }
    fn shrink_iters(&self) -> u32 {
        200
    }
    fn classes(&self) -> Vec<ClassSpec> {
        self.classes.iter().map(|c| c.0.clone()).collect()
    }
    fn strategy(&self, class: usize) -> BoxedStrategy<Case> {
        let (_, c, kind) = self.classes[class].clone();
        let l = if c == 0 { 32 } else { 57 };
        let n = schemes()[c as usize].curve.order.clone();
        match kind {
            0 => (prop::collection::vec(any::<u8>(), l), msg_strategy()).prop_map(move |(seed, msg)| Case::Sign { c, seed, msg, mutation: 0, pos: 0, val: 0 }).boxed(),
            1 => (prop::collection::vec(any::<u8>(), l), msg_strategy(), 1u8..11, any::<u16>(), any::<u8>()).prop_map(move |(seed, msg, mutation, pos, val)| Case::Sign { c, seed, msg, mutation, pos, val }).boxed(),
            2 => (crate::gen::any_scalar(&n), crate::gen::any_scalar(&n), any::<u8>(), any::<u8>(), prop::sample::select(vec![0u8, 0, 0, 1]), msg_strategy())
                .prop_map(move |(a, r, ta, tr, smod, msg)| Case::Torsion { c, a: a.to_bytes_le(), r: r.to_bytes_le(), ta, tr, smod, msg })
                .boxed(),
            3 => (any::<u8>(), any::<u8>(), s_strategy(c), msg_strategy()).prop_map(move |(ta, tr, s, msg)| Case::LowOrder { c, ta, tr, s, msg }).boxed(),
            5 => (any::<u8>(), any::<u8>(), s_strategy(c), msg_strategy()).prop_map(move |(which, form, s, msg)| Case::NonCanon { c, which, form, s, msg }).boxed(),
            _ => (
                prop_oneof![3 => prop::collection::vec(any::<u8>(), l), 1 => prop::collection::vec(any::<u8>(), 0..70)],
                prop_oneof![3 => prop::collection::vec(any::<u8>(), 2 * l), 1 => prop::collection::vec(any::<u8>(), 0..130), 1 => prop::sample::select(vec![0usize, 63, 64, 65, 113, 114, 115]).prop_flat_map(|n| prop::collection::vec(any::<u8>(), n))],
                msg_strategy(),
            )
                .prop_map(move |(pk, sig, msg)| Case::Raw { c, pk, sig, msg })
                .boxed(),
        }
    }
    fn check(&self, c: &Case) -> Outcome {
        check(c)
    }
}
