//! C17 - hash functions match their standards for every input and call pattern.

use crate::engine::*;
use crate::ftypes::leak;
use proptest::prelude::*;
use refmodel::hashes as rh;
use serde::{Deserialize, Serialize};

#[derive(Clone, Debug, Hash, Serialize, Deserialize)]
pub enum HOp {
    /// update instance i with bytes
    Update(u8, Vec<u8>),
    /// finalize instance i with variant v (digest/finalize/finalize_reset/finalize_write/finalize_reset_write; SHAKE: flip_extract / flip_extract_reset)
    Finalize(u8, u8, u16),
    Reset(u8),
    /// instance 1 := clone of instance 0 (fresh instance for the types that are not Clone)
    Fork,
    /// update instance i with `total` bytes of a fixed pattern (byte k = (k * 31 + seed) mod 251), fed in chunks of `chunk` bytes:
    /// lengths at which the bit / byte counters of the fixed-output hashes cross 2^32
    Huge(u8, u8, u64, u32),
    /// SHAKE only
    Flip(u8),
    Extract(u8, u16),
}

#[derive(Clone, Debug, Hash, Serialize, Deserialize)]
pub struct Case {
    pub func: u8,
    pub out_len: u8,
    pub key: Vec<u8>,
    pub ops: Vec<HOp>,
}

pub const FUNCS: &[(&str, usize)] = &[
    ("sha224", 64), ("sha256", 64), ("sha384", 128), ("sha512", 128), ("sha512_224", 128), ("sha512_256", 128),
    ("sha3_224", 144), ("sha3_256", 136), ("sha3_384", 104), ("sha3_512", 72),
    ("shake128", 168), ("shake256", 136),
    ("blake2s", 64), ("keyed_blake2s", 64), ("blake2s256", 64),
];

trait HInst {
    fn update(&mut self, d: &[u8]);
    /// returns (output, resets_instance)
    fn finalize(&mut self, variant: u8, extra: usize) -> (Vec<u8>, bool);
    fn reset(&mut self);
    fn fork(&self) -> Option<Box<dyn HInst>>;
    fn oneshot(&self, d: &[u8]) -> Option<Vec<u8>>;
}

macro_rules! fixed_hash {
    ($w:ident, $t:ty, $n:expr) => {
        struct $w($t);
        impl HInst for $w {
            fn update(&mut self, d: &[u8]) {
                // both AsRef forms
                if d.len() % 2 == 0 { self.0.update(d) } else { self.0.update(d.to_vec()) }
            }
            fn finalize(&mut self, variant: u8, extra: usize) -> (Vec<u8>, bool) {
                match variant % 5 {
                    0 => (self.0.digest().to_vec(), true),
                    1 => (self.0.finalize().to_vec(), true),
                    2 => (self.0.finalize_reset().to_vec(), true),
                    3 => { let mut o = vec![0xA5u8; $n + extra]; let n = self.0.finalize_write(&mut o); assert!(n == $n, "finalize_write returned {n}"); assert!(o[$n..].iter().all(|&x| x == 0xA5), "finalize_write wrote past the digest"); o.truncate($n); (o, true) }
                    _ => { let mut o = vec![0xA5u8; $n + extra]; let n = self.0.finalize_reset_write(&mut o); assert!(n == $n, "finalize_reset_write returned {n}"); o.truncate($n); (o, true) }
                }
            }
            fn reset(&mut self) { self.0.reset() }
            fn fork(&self) -> Option<Box<dyn HInst>> { Some(Box::new($w(self.0.clone()))) }
            fn oneshot(&self, d: &[u8]) -> Option<Vec<u8>> { Some(<$t>::hash(d).to_vec()) }
        }
    };
}
fixed_hash!(W224, crrl::sha2::Sha224, 28);
fixed_hash!(W256, crrl::sha2::Sha256, 32);
fixed_hash!(W384, crrl::sha2::Sha384, 48);
fixed_hash!(W512, crrl::sha2::Sha512, 64);
fixed_hash!(W512_224, crrl::sha2::Sha512_224, 28);
fixed_hash!(W512_256, crrl::sha2::Sha512_256, 32);
fixed_hash!(W3_224, crrl::sha3::SHA3_224, 28);
fixed_hash!(W3_256, crrl::sha3::SHA3_256, 32);
fixed_hash!(W3_384, crrl::sha3::SHA3_384, 48);
fixed_hash!(W3_512, crrl::sha3::SHA3_512, 64);

struct WB(crrl::blake2s::Blake2s, usize);
impl HInst for WB {
    fn update(&mut self, d: &[u8]) { self.0.update(d) }
    fn finalize(&mut self, variant: u8, extra: usize) -> (Vec<u8>, bool) {
        let mut o = vec![0xA5u8; self.1 + extra];
        let (n, r) = if variant % 2 == 0 { (self.0.finalize_write(&mut o), false) } else { (self.0.finalize_reset_write(&mut o), true) };
        assert!(n == self.1, "blake2s finalize returned {n}");
        assert!(o[self.1..].iter().all(|&x| x == 0xA5), "blake2s finalize wrote past out_len");
        o.truncate(self.1);
        (o, r)
    }
    fn reset(&mut self) { self.0.reset() }
    fn fork(&self) -> Option<Box<dyn HInst>> { None }
    fn oneshot(&self, d: &[u8]) -> Option<Vec<u8>> {
        let mut o = vec![0u8; self.1 + 3];
        crrl::blake2s::Blake2s::hash_into(self.1, d, &mut o);
        o.truncate(self.1);
        Some(o)
    }
}
struct WKB(crrl::blake2s::KeyedBlake2s, usize, Vec<u8>);
impl HInst for WKB {
    fn update(&mut self, d: &[u8]) { self.0.update(d) }
    fn finalize(&mut self, variant: u8, extra: usize) -> (Vec<u8>, bool) {
        let mut o = vec![0xA5u8; self.1 + extra];
        let (n, r) = if variant % 2 == 0 { (self.0.finalize_write(&mut o), false) } else { (self.0.finalize_reset_write(&mut o), true) };
        assert!(n == self.1, "keyed blake2s finalize returned {n}");
        o.truncate(self.1);
        (o, r)
    }
    fn reset(&mut self) { self.0.reset() }
    fn fork(&self) -> Option<Box<dyn HInst>> { None }
    fn oneshot(&self, d: &[u8]) -> Option<Vec<u8>> {
        let mut o = vec![0u8; self.1 + 1];
        crrl::blake2s::KeyedBlake2s::hash_into(self.1, &self.2, d, &mut o);
        o.truncate(self.1);
        Some(o)
    }
}
struct WB256(crrl::blake2s::Blake2s256);
impl HInst for WB256 {
    fn update(&mut self, d: &[u8]) { self.0.update(d) }
    fn finalize(&mut self, variant: u8, extra: usize) -> (Vec<u8>, bool) {
        match variant % 4 {
            0 => (self.0.finalize().to_vec(), false),
            1 => (self.0.finalize_reset().to_vec(), true),
            2 => { let mut o = vec![0u8; 32 + extra]; let n = self.0.finalize_write(&mut o); assert!(n == 32); o.truncate(32); (o, false) }
            _ => { let mut o = vec![0u8; 32 + extra]; let n = self.0.finalize_reset_write(&mut o); assert!(n == 32); o.truncate(32); (o, true) }
        }
    }
    fn reset(&mut self) { self.0 = crrl::blake2s::Blake2s256::new() }
    fn fork(&self) -> Option<Box<dyn HInst>> { None }
    fn oneshot(&self, d: &[u8]) -> Option<Vec<u8>> { Some(crrl::blake2s::Blake2s256::hash(d).to_vec()) }
}

fn new_inst(func: u8, out_len: usize, key: &[u8]) -> Box<dyn HInst> {
    match func {
        0 => Box::new(W224(crrl::sha2::Sha224::new())),
        1 => Box::new(W256(crrl::sha2::Sha256::new())),
        2 => Box::new(W384(crrl::sha2::Sha384::new())),
        3 => Box::new(W512(crrl::sha2::Sha512::new())),
        4 => Box::new(W512_224(crrl::sha2::Sha512_224::new())),
        5 => Box::new(W512_256(crrl::sha2::Sha512_256::new())),
        6 => Box::new(W3_224(crrl::sha3::SHA3_224::new())),
        7 => Box::new(W3_256(crrl::sha3::SHA3_256::new())),
        8 => Box::new(W3_384(crrl::sha3::SHA3_384::new())),
        9 => Box::new(W3_512(crrl::sha3::SHA3_512::new())),
        12 => Box::new(WB(crrl::blake2s::Blake2s::new(out_len), out_len)),
        13 => Box::new(WKB(crrl::blake2s::KeyedBlake2s::new(out_len, key), out_len, key.to_vec())),
        _ => Box::new(WB256(crrl::blake2s::Blake2s256::new())),
    }
}

fn ref_digest(func: u8, out_len: usize, key: &[u8], m: &[u8]) -> Vec<u8> {
    match func {
        0 => rh::sha224(m), 1 => rh::sha256(m), 2 => rh::sha384(m), 3 => rh::sha512(m), 4 => rh::sha512_224(m), 5 => rh::sha512_256(m),
        6 => rh::sha3_224(m), 7 => rh::sha3_256(m), 8 => rh::sha3_384(m), 9 => rh::sha3_512(m),
        12 => rh::blake2s(out_len, &[], m),
        13 => rh::blake2s(out_len, key, m),
        _ => rh::blake2s(32, &[], m),
    }
}

struct Model {
    data: Vec<u8>,
    /// blake2 non-resetting finalize: unusable until reset; SHAKE: output mode
    flipped: bool,
    extracted: usize,
}

fn run_fixed(c: &Case) -> Outcome {
    let mut acc = Acc::new();
    let name = FUNCS[c.func as usize].0;
    let block = FUNCS[c.func as usize].1;
    let out_len = (c.out_len as usize).clamp(1, 32);
    let key = &c.key[..c.key.len().min(32)];
    let r = guard(|| {
        let mut inst: Vec<Option<Box<dyn HInst>>> = vec![Some(new_inst(c.func, out_len, key)), None];
        let mut model = vec![Model { data: vec![], flipped: false, extracted: 0 }, Model { data: vec![], flipped: false, extracted: 0 }];
        let mut results: Vec<(Vec<u8>, Vec<u8>, usize)> = Vec::new();
        let mut nt = false;
        for op in &c.ops {
            match op {
                HOp::Update(i, d) => {
                    let i = (*i & 1) as usize;
                    if inst[i].is_none() || model[i].flipped { continue; }
                    let before = model[i].data.len();
                    // key block of keyed BLAKE2s counts as a first block
                    let off = if c.func == 13 && !key.is_empty() { 64 } else { 0 };
                    if !d.is_empty() && (before + off) / block != (before + off + d.len()) / block && (before + off) % block != 0 { nt = true; }
                    inst[i].as_mut().unwrap().update(d);
                    model[i].data.extend_from_slice(d);
                }
                HOp::Huge(i, seed, total, chunk) => {
                    let i = (*i & 1) as usize;
                    if inst[i].is_none() || model[i].flipped { continue; }
                    let chunk = (*chunk as usize).clamp(1, 1 << 24);
                    let pat: Vec<u8> = (0..(251usize * 4096 + chunk)).map(|k| ((k % 251) as u64 * 31 + *seed as u64) as u8).collect();
                    let mut done = 0u64;
                    model[i].data.reserve(*total as usize);
                    while done < *total {
                        let n = ((*total - done) as usize).min(chunk);
                        let off = (done % (251 * 4096)) as usize;
                        inst[i].as_mut().unwrap().update(&pat[off..off + n]);
                        model[i].data.extend_from_slice(&pat[off..off + n]);
                        done += n as u64;
                    }
                    nt = true;
                }
                HOp::Finalize(i, v, extra) => {
                    let i = (*i & 1) as usize;
                    if inst[i].is_none() || model[i].flipped { continue; }
                    let (o, reset) = inst[i].as_mut().unwrap().finalize(*v, (*extra % 5) as usize);
                    results.push((o, ref_digest(c.func, out_len, key, &model[i].data), model[i].data.len()));
                    if reset { model[i].data.clear(); } else { model[i].flipped = true; }
                }
                HOp::Reset(i) => {
                    let i = (*i & 1) as usize;
                    if inst[i].is_none() { continue; }
                    if model[i].data.len() % block != 0 { nt = true; }
                    inst[i].as_mut().unwrap().reset();
                    model[i].data.clear();
                    model[i].flipped = false;
                }
                HOp::Fork => {
                    if model[0].flipped { continue; }
                    match inst[0].as_ref().unwrap().fork() {
                        Some(b) => {
                            if model[0].data.len() % block != 0 { nt = true; }
                            inst[1] = Some(b);
                            model[1] = Model { data: model[0].data.clone(), flipped: false, extracted: 0 };
                        }
                        None => {
                            inst[1] = Some(new_inst(c.func, out_len, key));
                            model[1] = Model { data: vec![], flipped: false, extracted: 0 };
                        }
                    }
                }
                _ => {}
            }
        }
        // closing: finalize whatever is still open, and the one-call function on instance 0's data
        for i in 0..2 {
            if inst[i].is_some() && !model[i].flipped {
                let (o, _) = inst[i].as_mut().unwrap().finalize(1, 0);
                results.push((o, ref_digest(c.func, out_len, key, &model[i].data), model[i].data.len()));
                if let Some(one) = inst[i].as_ref().unwrap().oneshot(&model[i].data) {
                    results.push((one, ref_digest(c.func, out_len, key, &model[i].data), model[i].data.len()));
                }
            }
        }
        (results, nt)
    });
    match r {
        Err(sig) => {
            acc.check(false, || format!("C17:{name}:{sig}"), || format!("history panicked: {sig}"));
        }
        Ok((results, nt)) => {
            acc.nt(nt);
            if nt {
                acc.tag("block_boundary_inside_chunk_or_midblock_reset_clone");
            }
            for (got, exp, len) in results {
                acc.check(got == exp, || format!("C17:{name}:digest"), || format!("{name} digest of {len} accumulated bytes: got {} expected {}", hex(&got), hex(&exp)));
            }
        }
    }
    acc.done()
}

fn run_shake(c: &Case) -> Outcome {
    use crrl::sha3::{SHAKE128, SHAKE256};
    let mut acc = Acc::new();
    let name = FUNCS[c.func as usize].0;
    let rate = FUNCS[c.func as usize].1;
    enum S { A(SHAKE128), B(SHAKE256) }
    impl S {
        fn inject(&mut self, d: &[u8], alt: bool) { match self { S::A(s) => if alt { s.update(d) } else { s.inject(d) }, S::B(s) => if alt { s.update(d) } else { s.inject(d) } } }
        fn flip(&mut self) { match self { S::A(s) => s.flip(), S::B(s) => s.flip() } }
        fn extract(&mut self, o: &mut [u8]) { match self { S::A(s) => s.extract(o), S::B(s) => s.extract(o) } }
        fn reset(&mut self) { match self { S::A(s) => s.reset(), S::B(s) => s.reset() } }
        fn flip_extract(&mut self, o: &mut [u8]) { match self { S::A(s) => s.flip_extract(o), S::B(s) => s.flip_extract(o) } }
        fn flip_extract_reset(&mut self, o: &mut [u8]) { match self { S::A(s) => s.flip_extract_reset(o), S::B(s) => s.flip_extract_reset(o) } }
        fn dup(&self) -> S { match self { S::A(s) => S::A(s.clone()), S::B(s) => S::B(*s) } }
    }
    let refx = |m: &[u8], n: usize| if c.func == 10 { rh::shake128(m, n) } else { rh::shake256(m, n) };
    let r = guard(|| {
        let fresh = || if c.func == 10 { S::A(SHAKE128::new()) } else { S::B(SHAKE256::new()) };
        let mut inst: Vec<Option<S>> = vec![Some(fresh()), None];
        let mut model = vec![Model { data: vec![], flipped: false, extracted: 0 }, Model { data: vec![], flipped: false, extracted: 0 }];
        let mut results: Vec<(Vec<u8>, Vec<u8>, String)> = Vec::new();
        let mut nt = false;
        for op in &c.ops {
            match op {
                HOp::Update(i, d) => {
                    let i = (*i & 1) as usize;
                    if inst[i].is_none() || model[i].flipped { continue; }
                    let before = model[i].data.len();
                    if !d.is_empty() && before / rate != (before + d.len()) / rate && before % rate != 0 { nt = true; }
                    inst[i].as_mut().unwrap().inject(d, d.len() % 2 == 1);
                    model[i].data.extend_from_slice(d);
                }
                HOp::Flip(i) => {
                    let i = (*i & 1) as usize;
                    if inst[i].is_none() || model[i].flipped { continue; }
                    inst[i].as_mut().unwrap().flip();
                    model[i].flipped = true;
                    model[i].extracted = 0;
                }
                HOp::Extract(i, n) => {
                    let i = (*i & 1) as usize;
                    if inst[i].is_none() || !model[i].flipped { continue; }
                    let n = *n as usize % 700;
                    let mut o = vec![0u8; n];
                    inst[i].as_mut().unwrap().extract(&mut o);
                    let off = model[i].extracted;
                    if n > 0 && off / rate != (off + n) / rate && off % rate != 0 { nt = true; }
                    let e = refx(&model[i].data, off + n)[off..].to_vec();
                    results.push((o, e, format!("extract {n} at offset {off} after {} input bytes", model[i].data.len())));
                    model[i].extracted += n;
                }
                HOp::Finalize(i, v, n) => {
                    let i = (*i & 1) as usize;
                    if inst[i].is_none() || model[i].flipped { continue; }
                    let n = *n as usize % 700;
                    let mut o = vec![0u8; n];
                    if v % 2 == 0 {
                        inst[i].as_mut().unwrap().flip_extract(&mut o);
                        results.push((o, refx(&model[i].data, n), format!("flip_extract {n} after {} input bytes", model[i].data.len())));
                        model[i].flipped = true;
                        model[i].extracted = n;
                    } else {
                        inst[i].as_mut().unwrap().flip_extract_reset(&mut o);
                        results.push((o, refx(&model[i].data, n), format!("flip_extract_reset {n} after {} input bytes", model[i].data.len())));
                        model[i] = Model { data: vec![], flipped: false, extracted: 0 };
                    }
                }
                HOp::Reset(i) => {
                    let i = (*i & 1) as usize;
                    if inst[i].is_none() { continue; }
                    if model[i].data.len() % rate != 0 || model[i].flipped { nt = true; }
                    inst[i].as_mut().unwrap().reset();
                    model[i] = Model { data: vec![], flipped: false, extracted: 0 };
                }
                HOp::Huge(..) => {}
                HOp::Fork => {
                    if model[0].data.len() % rate != 0 || model[0].flipped { nt = true; }
                    inst[1] = Some(inst[0].as_ref().unwrap().dup());
                    model[1] = Model { data: model[0].data.clone(), flipped: model[0].flipped, extracted: model[0].extracted };
                }
            }
        }
        for i in 0..2 {
            if let Some(s) = inst[i].as_mut() {
                let mut o = vec![0u8; 40];
                if !model[i].flipped { s.flip(); model[i].extracted = 0; }
                s.extract(&mut o);
                let off = model[i].extracted;
                results.push((o, refx(&model[i].data, off + 40)[off..].to_vec(), format!("closing extract at offset {off}")));
            }
        }
        (results, nt)
    });
    match r {
        Err(sig) => {
            acc.check(false, || format!("C17:{name}:{sig}"), || format!("history panicked: {sig}"));
        }
        Ok((results, nt)) => {
            acc.nt(nt);
            if nt {
                acc.tag("block_boundary_inside_chunk_or_midblock_reset_clone");
            }
            for (got, exp, what) in results {
                acc.check(got == exp, || format!("C17:{name}:stream"), || format!("{name} {what}: got {} expected {}", hex(&got[..got.len().min(48)]), hex(&exp[..exp.len().min(48)])));
            }
        }
    }
    acc.done()
}

/// digest of a plain update-only history (used by the C18 transcript): every chunk is fed with update(), then finalized
pub fn digest_of_history(func: u8, out_len: u8, key: &[u8], ops: &[HOp]) -> Vec<u8> {
    let func = func % 15;
    let out_len = (out_len as usize).clamp(1, 32);
    let key = &key[..key.len().min(32)];
    if func == 10 || func == 11 {
        let mut o = vec![0u8; 200];
        if func == 10 {
            let mut s = crrl::sha3::SHAKE128::new();
            for op in ops { if let HOp::Update(_, d) = op { s.inject(d); } }
            s.flip_extract(&mut o[..77]);
            s.extract(&mut o[77..]);
        } else {
            let mut s = crrl::sha3::SHAKE256::new();
            for op in ops { if let HOp::Update(_, d) = op { s.inject(d); } }
            s.flip_extract(&mut o[..77]);
            s.extract(&mut o[77..]);
        }
        return o;
    }
    let mut inst = new_inst(func, out_len, key);
    for op in ops {
        if let HOp::Update(_, d) = op {
            inst.update(d);
        }
    }
    inst.finalize(1, 0).0
}

pub struct C17 {
    classes: Vec<(ClassSpec, u8)>,
}

impl C17 {
    pub fn new() -> Self {
        let classes = FUNCS.iter().enumerate().map(|(i, (n, _))| (cls(leak(format!("{n}/history")), 1500, 200_000), i as u8)).collect();
        C17 { classes }
    }
}

fn chunk(block: usize) -> BoxedStrategy<Vec<u8>> {
    let lens = vec![0usize, 1, block - 1, block, block + 1, 2 * block + 3, 55, 56, 57, 63, 64, 65, 111, 112, 113, 119, 120, 127, 128, 129];
    prop_oneof![
        3 => prop::sample::select(lens).prop_flat_map(|n| prop::collection::vec(any::<u8>(), n)),
        1 => (0usize..700).prop_flat_map(|n| prop::collection::vec(any::<u8>(), n)),
        1 => (0usize..20).prop_flat_map(|n| prop::collection::vec(any::<u8>(), n)),
    ]
    .boxed()
}

impl Property for C17 {
    type Case = Case;
    fn id(&self) -> &'static str {
        "C17"
    }
    fn rule(&self) -> String {
        "Each case = hash function (SHA-224/256/384/512, SHA-512/224, SHA-512/256, SHA3-224/256/384/512, SHAKE128/256, BLAKE2s unkeyed / keyed / 256-bit wrapper with output length 1..32 and key length 0..32) + a history of up to 12 operations over two instances: update with chunk lengths {0,1,block-1,block,block+1,2*block+3, padding boundaries 55..65/111..129, uniform <= 700}, every finalize variant (with over-long output buffers), reset, clone (fork), SHAKE flip / extract(len) / flip_extract / flip_extract_reset; documented misuse (use after a non-resetting finalize, SHAKE phase errors) is skipped by a phase model. Oracle: the reference one-shot digest (validated against hashlib) of the bytes accumulated since the last reset; SHAKE stream prefix property; the one-call hash() / hash_into(). Sweep: four streamed messages of 2^29 .. 2^32+6 bytes at which the bit / byte counters of SHA-224/256 and BLAKE2s cross a 32-bit word. Non-trivial: a chunk crosses a block/rate boundary starting mid-block, or a reset / clone happens mid-block; every sweep case. distinct = distinct case hash.".into()
    }
    fn shard_size(&self) -> u64 {
        250
    }
    fn classes(&self) -> Vec<ClassSpec> {
        self.classes.iter().map(|c| c.0.clone()).collect()
    }
    fn strategy(&self, class: usize) -> BoxedStrategy<Case> {
        let func = self.classes[class].1;
        let block = FUNCS[func as usize].1;
        let shake = func == 10 || func == 11;
        let op = if shake {
            prop_oneof![
                5 => (0u8..2, chunk(block)).prop_map(|(i, d)| HOp::Update(i, d)),
                2 => (0u8..2).prop_map(HOp::Flip),
                4 => (0u8..2, prop_oneof![prop::sample::select(vec![0u16, 1, 31, 32, 135, 136, 137, 167, 168, 169, 336, 337]), 0u16..700]).prop_map(|(i, n)| HOp::Extract(i, n)),
                1 => (0u8..2, any::<u8>(), 0u16..700).prop_map(|(i, v, n)| HOp::Finalize(i, v, n)),
                1 => (0u8..2).prop_map(HOp::Reset),
                1 => Just(HOp::Fork),
            ]
            .boxed()
        } else {
            prop_oneof![
                6 => (0u8..2, chunk(block)).prop_map(|(i, d)| HOp::Update(i, d)),
                2 => (0u8..2, any::<u8>(), 0u16..5).prop_map(|(i, v, n)| HOp::Finalize(i, v, n)),
                1 => (0u8..2).prop_map(HOp::Reset),
                1 => Just(HOp::Fork),
            ]
            .boxed()
        };
        (prop::collection::vec(op, 0..12), 1u8..=32, prop::collection::vec(any::<u8>(), 0..=32))
            .prop_map(move |(ops, out_len, key)| Case { func, out_len, key, ops })
            .boxed()
    }
    fn sweep(&self, _tier: Tier) -> Vec<(&'static str, Case)> {
        // message lengths at which the length counters cross a word boundary: SHA-224/256 keep a 64-bit bit count (high word
        // non-zero from 2^29 bytes), BLAKE2s a 64-bit byte count in two 32-bit words (2^31: sign bit of the low word, 2^32:
        // carry into the high word; the key block of keyed BLAKE2s counts). The 128-bit counters of SHA-384/512 cannot be reached.
        let mk = |func: u8, key: Vec<u8>, pre: usize, total: u64, chunk: u32| Case { func, out_len: 32, key, ops: vec![HOp::Update(0, vec![0x5A; pre]), HOp::Huge(0, func, total, chunk)] };
        vec![
            ("sha224/counter_boundary", mk(0, vec![], 3, (1 << 29) - 1, 1 << 16)),
            ("sha256/counter_boundary", mk(1, vec![], 0, 1 << 29, 1 << 20)),
            ("blake2s/counter_boundary", mk(12, vec![], 1, 1 << 31, 1 << 20)),
            ("keyed_blake2s/counter_boundary", mk(13, vec![7u8; 32], 5, (1 << 32) + 1, 1 << 22)),
        ]
    }
    fn check(&self, c: &Case) -> Outcome {
        if c.func == 10 || c.func == 11 { run_shake(c) } else { run_fixed(c) }
    }
}
