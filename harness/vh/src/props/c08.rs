//! C08 - ECDSA (P-256, secp256k1): standard verification, documented nonce derivation.

use crate::engine::*;
use crate::ftypes::leak;
use num_bigint::BigUint;
use num_traits::{One, Zero};
use proptest::prelude::*;
use refmodel::curves::{Pt, RefGroup};
use refmodel::pf;
use refmodel::schemes::Ecdsa;
use serde::{Deserialize, Serialize};
use std::sync::OnceLock;

#[derive(Clone, Debug, Hash, Serialize, Deserialize)]
pub enum Case {
    /// sign_hash with (key, hash, extra randomness), compare with the documented derivation, verify; optional mutation
    Sign { c: u8, d: Vec<u8>, hv: Vec<u8>, extra: Vec<u8>, mutation: u8, pos: u16, val: u8 },
    /// forged-valid signature with chosen s and nonce k: h = s*k - r*d (the hash is a caller input), re-encoded on `len` bytes per half
    Forged { c: u8, d: Vec<u8>, k: Vec<u8>, s: Vec<u8>, half_len: u8, pad: u8 },
    /// R chosen by its x-coordinate (x in [n, p): r = x - n; or x < p - n: r = x, also presented as x + n), s and h arbitrary,
    /// public key Q = (sR - hG)/r: exercises the reduction of x(R) modulo n at the end of verification
    WrapX { c: u8, xoff: Vec<u8>, above_n: bool, odd: bool, s: Vec<u8>, h: Vec<u8>, present_unreduced: bool, half_len: u8 },
    /// valid signature whose verification multipliers are chosen: u2 = r/s = u (a structured scalar: rounding boundaries of
    /// the endomorphism split, short fractions, digit patterns, ...), u1 = h/s = v; R = vG + uQ, r = x(R) mod n, s = r/u, h = s*v
    ChosenUV { c: u8, d: Vec<u8>, u: Vec<u8>, v: Vec<u8>, swap: bool },
    /// r, s from boundary sets with arbitrary hash
    Range { c: u8, d: Vec<u8>, r: Vec<u8>, s: Vec<u8>, hv: Vec<u8>, half_len: u8 },
    /// arbitrary signature / public key bytes
    Raw { c: u8, pk: Vec<u8>, sig: Vec<u8>, hv: Vec<u8> },
    /// private / public key decoding
    KeyDec { c: u8, b: Vec<u8>, private: bool },
}

fn schemes() -> &'static [Ecdsa; 2] {
    static S: OnceLock<[Ecdsa; 2]> = OnceLock::new();
    S.get_or_init(|| [refmodel::schemes::ecdsa_p256(), refmodel::schemes::ecdsa_secp256k1()])
}

fn name(c: u8) -> &'static str {
    if c == 0 { "p256" } else { "secp256k1" }
}

fn crrl_sign(c: u8, d: &BigUint, hv: &[u8], extra: &[u8]) -> Option<(Vec<u8>, Vec<u8>)> {
    let db = pf::to_be(d, 32);
    if c == 0 {
        let sk = crrl::p256::PrivateKey::decode(&db)?;
        Some((sk.sign_hash(hv, extra).to_vec(), sk.to_public_key().encode_uncompressed().to_vec()))
    } else {
        let sk = crrl::secp256k1::PrivateKey::decode(&db)?;
        Some((sk.sign_hash(hv, extra).to_vec(), sk.to_public_key().encode_uncompressed().to_vec()))
    }
}

fn crrl_verify(c: u8, pk: &[u8], sig: &[u8], hv: &[u8]) -> Option<bool> {
    if c == 0 {
        Some(crrl::p256::PublicKey::decode(pk)?.verify_hash(sig, hv))
    } else {
        Some(crrl::secp256k1::PublicKey::decode(pk)?.verify_hash(sig, hv))
    }
}

fn compare(acc: &mut Acc, c: u8, pk: &[u8], sig: &[u8], hv: &[u8]) {
    let sch = &schemes()[c as usize];
    // public keys: any SEC1 encoding of a non-neutral point
    let q = sch.curve.decode(pk).filter(|p| *p != Pt::Inf);
    let got = guard(|| crrl_verify(c, pk, sig, hv));
    let (exp, reason) = match &q {
        None => (false, "bad_public_key"),
        Some(q) => sch.verify(q, sig, hv),
    };
    acc.tag(match reason {
        "valid" => "ref_accepts",
        "bad_public_key" => "ref_rejects_public_key",
        "malformed" => "ref_rejects_format",
        "range" => "ref_rejects_range",
        "infinity" => "ref_rejects_infinity",
        _ => "ref_rejects_equation",
    });
    let ok = match (&got, &q) {
        (Ok(None), None) => true,
        (Ok(Some(b)), Some(_)) => *b == exp,
        _ => false,
    };
    acc.check(
        ok,
        || format!("C08:{}:verify:{}", name(c), if got.is_err() { "panic" } else if exp { "rejects_valid" } else { "accepts_invalid" }),
        || format!("verify_hash(pk={}, sig={}, hv={}) -> {:?}; reference {} ({})", hex(pk), hex(sig), hex(hv), got, exp, reason),
    );
}

fn key_of(c: u8, d: &[u8]) -> BigUint {
    let n = &schemes()[c as usize].curve.order;
    // private keys are integers in [1, n-1]
    (pf::from_le(d) % (n - 1u32)) + 1u32
}

/// `pad`: low nibble / high nibble select the surplus-byte fill of the r half / the s half (0 = zero padding)
fn encode_halves(r: &BigUint, s: &BigUint, half_len: u8, pad: u8) -> Vec<u8> {
    let l = (half_len as usize).clamp(1, 70);
    let enc = |x: &BigUint, pad: u8| -> Vec<u8> {
        let mut b = x.to_bytes_be();
        if b == [0] { b.clear(); }
        if b.len() > l {
            // cannot be represented: keep the low bytes (a different, usually invalid, integer)
            b = b[b.len() - l..].to_vec();
        }
        let mut v = vec![0u8; l - b.len()];
        if pad != 0 && !v.is_empty() { let i = (pad as usize >> 2) % v.len(); v[i] = pad; }
        v.extend(b);
        v
    };
    let mut out = enc(r, pad & 0x0F);
    out.extend(enc(s, pad >> 4));
    out
}

fn check(case: &Case) -> Outcome {
    let mut acc = Acc::new();
    acc.nt(true);
    match case {
        Case::Sign { c, d, hv, extra, mutation, pos, val } => {
            let sch = &schemes()[*c as usize];
            let di = key_of(*c, d);
            let exp = sch.sign(&di, hv, extra);
            let got = guard(|| crrl_sign(*c, &di, hv, extra));
            let (sig, pk) = match &got {
                Ok(Some(x)) => x.clone(),
                _ => {
                    acc.check(false, || format!("C08:{}:sign:failed", name(*c)), || format!("sign_hash failed: {:?}", got.as_ref().map(|_| ())));
                    return acc.done();
                }
            };
            if let Some(e) = &exp {
                acc.check(&sig == e, || format!("C08:{}:sign:nonce", name(*c)), || format!("sign_hash(d={:x}, hv={}, extra={}) -> {} but the documented derivation gives {}", di, hex(hv), hex(extra), hex(&sig), hex(e)));
            }
            let exp_pk = sch.curve.encode_uncompressed(&sch.public(&di));
            acc.check(pk == exp_pk, || format!("C08:{}:public_key", name(*c)), || format!("public key of {:x}: {} expected {}", di, hex(&pk), hex(&exp_pk)));
            // deterministic
            let again = guard(|| crrl_sign(*c, &di, hv, extra));
            acc.check(matches!(&again, Ok(Some((s2, _))) if *s2 == sig), || format!("C08:{}:sign:nondeterministic", name(*c)), || "two calls with the same inputs differ".into());
            // s = (h + x r)/k is implied by byte equality with the reference; r, s nonzero and 64 bytes
            let (r, s) = (pf::from_be(&sig[..32]), pf::from_be(&sig[32..]));
            acc.check(sig.len() == 64 && !r.is_zero() && !s.is_zero(), || format!("C08:{}:sign:format", name(*c)), || "r or s is zero".into());
            let mut sig2 = sig.clone();
            let mut hv2 = hv.clone();
            let mut pk2 = pk.clone();
            match mutation % 8 {
                0 => {}
                1 => { let p = *pos as usize % 512; sig2[p / 8] ^= 1 << (p % 8); }
                2 => { if hv2.is_empty() { hv2.push(*val | 1) } else { let p = *pos as usize % hv2.len().min(32); hv2[p] ^= *val | 1; } }
                3 => { // bytes beyond the 32nd must be ignored
                    if hv2.len() >= 32 { hv2.push(*val); hv2.push(1); } else { hv2.insert(0, 0); }
                }
                4 => { // zero-extended halves
                    sig2 = encode_halves(&r, &s, 33 + (*val % 20), 0);
                }
                5 => { let pad = [0x01u8, 0x10, 0x11, 0x0F, 0xF0, 0x23][*val as usize % 6]; sig2 = encode_halves(&r, &s, 33 + (*val % 20), pad); }
                6 => { pk2 = sch.curve.encode(&sch.public(&di)); } // compressed key
                _ => { sig2.push(0); }
            }
            compare(&mut acc, *c, &pk2, &sig2, &hv2);
        }
        Case::Forged { c, d, k, s, half_len, pad } => {
            let sch = &schemes()[*c as usize];
            let n = &sch.curve.order;
            let di = key_of(*c, d);
            let ki = key_of(*c, k);
            let si = pf::from_le(s) % n;
            let Pt::A(x, _) = sch.curve.mul(&ki, &sch.curve.base()) else { return acc.done() };
            let r = x % n;
            // h = s*k - r*d mod n; the hash is a caller input, so any h is reachable
            let h = pf::sub(&pf::mul(&si, &ki, n), &pf::mul(&r, &di, n), n);
            let hv = pf::to_be(&h, 32);
            let pk = sch.curve.encode_uncompressed(&sch.public(&di));
            let sig = encode_halves(&r, &si, *half_len, *pad);
            acc.tag("forged_with_chosen_s");
            compare(&mut acc, *c, &pk, &sig, &hv);
        }
        Case::WrapX { c, xoff, above_n, odd, s, h, present_unreduced, half_len } => {
            let sch = &schemes()[*c as usize];
            let n = &sch.curve.order;
            let p = sch.curve.p.clone();
            let gap = &p - n; // x(R) in [n, p) <=> x(R) - n in [0, gap)
            let mut off = pf::from_le(xoff) % &gap;
            // first x >= candidate that is the abscissa of a curve point
            let mut rp = None;
            for _ in 0..64 {
                let x = if *above_n { n + &off } else { off.clone() };
                if x < p && !(x.clone() % n).is_zero() {
                    let mut e = vec![if *odd { 3u8 } else { 2u8 }];
                    e.extend(pf::to_be(&x, 32));
                    if let Some(pt) = sch.curve.decode(&e) {
                        rp = Some((x, pt));
                        break;
                    }
                }
                off += 1u32;
            }
            let Some((x, rpt)) = rp else { acc.nt(false); return acc.done() };
            let r = &x % n;
            let si = (pf::from_le(s) % (n - 1u32)) + 1u32;
            let hi = pf::from_le(h) % n;
            // Q = (s R - h G) / r
            let t = sch.curve.sub(&sch.curve.mul(&si, &rpt), &sch.curve.mulgen(&hi));
            let q = sch.curve.mul(&pf::inv(&r, n), &t);
            if q == Pt::Inf { acc.nt(false); return acc.done(); }
            let pk = sch.curve.encode_uncompressed(&q);
            let hv = pf::to_be(&hi, 32);
            // presented r: the reduced value (valid), or the unreduced abscissa / r + n (out of range: must be rejected)
            let rr = if *present_unreduced { if *above_n { x.clone() } else { &r + n } } else { r.clone() };
            let sig = encode_halves(&rr, &si, *half_len, 0);
            acc.tag(if *above_n { "xR_in_[n,p)" } else { "xR_below_p-n" });
            acc.tag(if *present_unreduced { "r_presented_unreduced" } else { "r_presented_reduced" });
            compare(&mut acc, *c, &pk, &sig, &hv);
        }
        Case::ChosenUV { c, d, u, v, swap } => {
            let sch = &schemes()[*c as usize];
            let n = &sch.curve.order;
            let di = key_of(*c, d);
            let q = sch.public(&di);
            let (mut ui, mut vi) = (pf::from_le(u) % n, pf::from_le(v) % n);
            if *swap { std::mem::swap(&mut ui, &mut vi); }
            if ui.is_zero() { acc.nt(false); return acc.done(); }
            let rpt = sch.curve.add(&sch.curve.mulgen(&vi), &sch.curve.mul(&ui, &q));
            let Pt::A(x, _) = rpt else { acc.nt(false); return acc.done() };
            let r = &x % n;
            if r.is_zero() { acc.nt(false); return acc.done(); }
            let si = pf::mul(&r, &pf::inv(&ui, n), n);
            let hi = pf::mul(&si, &vi, n);
            let pk = sch.curve.encode_uncompressed(&q);
            let sig = encode_halves(&r, &si, 32, 0);
            acc.tag("chosen_verification_multipliers");
            compare(&mut acc, *c, &pk, &sig, &pf::to_be(&hi, 32));
        }
        Case::Range { c, d, r, s, hv, half_len } => {
            let sch = &schemes()[*c as usize];
            let di = key_of(*c, d);
            let pk = sch.curve.encode_uncompressed(&sch.public(&di));
            let sig = encode_halves(&pf::from_le(r), &pf::from_le(s), *half_len, 0);
            compare(&mut acc, *c, &pk, &sig, hv);
        }
        Case::Raw { c, pk, sig, hv } => compare(&mut acc, *c, pk, sig, hv),
        Case::KeyDec { c, b, private } => {
            let sch = &schemes()[*c as usize];
            if *private {
                // documented: 32 bytes, big-endian, in [1, n-1]
                let x = pf::from_be(b);
                let exp = b.len() == 32 && !x.is_zero() && x < sch.curve.order;
                let got = guard(|| if *c == 0 { crrl::p256::PrivateKey::decode(b).map(|k| k.encode().to_vec()) } else { crrl::secp256k1::PrivateKey::decode(b).map(|k| k.encode().to_vec()) });
                acc.check(matches!(&got, Ok(o) if o.is_some() == exp && (!exp || o.as_deref() == Some(&b[..]))), || format!("C08:{}:private_key_decode", name(*c)), || format!("PrivateKey::decode({}) -> {:?}, expected accept = {}", hex(b), got, exp));
            } else {
                let q = sch.curve.decode(b).filter(|p| *p != Pt::Inf);
                let got = guard(|| if *c == 0 { crrl::p256::PublicKey::decode(b).map(|k| k.encode_compressed().to_vec()) } else { crrl::secp256k1::PublicKey::decode(b).map(|k| k.encode_compressed().to_vec()) });
                let exp = q.as_ref().map(|p| sch.curve.encode(p));
                acc.check(got.as_ref().ok() == Some(&exp), || format!("C08:{}:public_key_decode", name(*c)), || format!("PublicKey::decode({}) -> {:?}, expected {:?}", hex(b), got, exp.as_ref().map(|e| hex(e))));
            }
        }
    }
    acc.done()
}

pub struct C08 {
    classes: Vec<(ClassSpec, u8, u8)>,
}

impl C08 {
    pub fn new() -> Self {
        let mut classes = Vec::new();
        for c in 0..2u8 {
            let n = name(c);
            classes.push((cls(leak(format!("{n}/sign")), 300, 30_000), c, 0));
            classes.push((cls(leak(format!("{n}/sign_mutated")), 400, 40_000), c, 1));
            classes.push((cls(leak(format!("{n}/forged")), 400, 40_000), c, 2));
            classes.push((cls(leak(format!("{n}/range")), 400, 40_000), c, 3));
            classes.push((cls(leak(format!("{n}/raw")), 300, 30_000), c, 4));
            classes.push((cls(leak(format!("{n}/key_decode")), 400, 40_000), c, 5));
            classes.push((cls(leak(format!("{n}/xR_wraps_n")), 200, 20_000), c, 6));
            classes.push((cls(leak(format!("{n}/chosen_multipliers")), 900, 90_000), c, 7));
        }
        C08 { classes }
    }
}

fn key_strategy() -> BoxedStrategy<Vec<u8>> {
    // mapped to [1, n-1] by key_of: 0 -> 1, n-2 -> n-1
    prop_oneof![
        3 => prop::collection::vec(any::<u8>(), 40),
        1 => Just(vec![0u8]),
        1 => Just(vec![1u8]),
        1 => (0u8..4).prop_map(|i| { let n = &schemes()[0].curve.order; (n - 2u32 - i as u32).to_bytes_le() }),
        1 => (0u8..4).prop_map(|i| { let n = &schemes()[1].curve.order; (n - 2u32 - i as u32).to_bytes_le() }),
    ]
    .boxed()
}

fn hash_strategy() -> BoxedStrategy<Vec<u8>> {
    prop_oneof![
        3 => prop::collection::vec(any::<u8>(), 32),
        1 => prop::sample::select(vec![0usize, 1, 20, 31, 33, 48, 64, 100]).prop_flat_map(|n| prop::collection::vec(any::<u8>(), n)),
        1 => prop::sample::select(vec![vec![0u8; 32], vec![0xFFu8; 32], vec![0xFFu8; 64], vec![0u8; 0]]),
        1 => prop::collection::vec(any::<u8>(), 0..100),
    ]
    .boxed()
}

fn boundary_int(c: u8) -> BoxedStrategy<Vec<u8>> {
    let n = schemes()[c as usize].curve.order.clone();
    let v: Vec<BigUint> = vec![BigUint::zero(), BigUint::one(), &n - 1u32, n.clone(), &n + 1u32, (BigUint::one() << 256) - 1u32, BigUint::one() << 255, &n >> 1, (&n >> 1) + 1u32];
    prop_oneof![2 => prop::sample::select(v).prop_map(|x| x.to_bytes_le()), 1 => prop::collection::vec(any::<u8>(), 32)].boxed()
}

impl Property for C08 {
    type Case = Case;
    fn id(&self) -> &'static str {
        "C08"
    }
    fn rule(&self) -> String {
        "Cases (P-256 and secp256k1): sign = sign_hash(key incl. 1 and n-1, hash of length 0..100, extra randomness 0..100 bytes) must equal the documented derivation byte for byte (RFC 6979 HMAC-SHA-256 with the extra input in both keying steps for P-256; SHA-512(le key || le h || extra) mod n for secp256k1), be deterministic, 64 bytes with non-zero r, s, and verify - optionally after one mutation (bit flip, hash change within / beyond the first 32 bytes, zero-extended or non-zero-padded halves, compressed key, odd length); chosen_multipliers = valid signatures built from chosen verification multipliers u2 = r/s (structured scalar classes incl. the rounding boundaries of the endomorphism split) and u1 = h/s; xR_wraps_n = R chosen by abscissa with x(R) in [n, p) (r = x(R) - n must be accepted; the unreduced abscissa presented as r must be rejected) or x(R) < p - n (r accepted, r + n rejected), public key (sR - hG)/r; forged = signatures with chosen s and nonce through h = s*k - r*d, re-encoded on 1..70 bytes per half with zero / non-zero padding; range = r, s in {0,1,n-1,n,n+1,2^256-1,...}; raw = arbitrary key / signature / hash bytes; key decoding of private and public keys. Oracle: the verification predicate exactly as the property words it, in the reference model. All cases non-trivial; tags give the reference verdict and reason. distinct = distinct case hash.".into()
    }
    fn shard_size(&self) -> u64 {
        25
    }
    fn shrink_iters(&self) -> u32 {
        200
    }
    fn classes(&self) -> Vec<ClassSpec> {
        self.classes.iter().map(|c| c.0.clone()).collect()
    }
    fn strategy(&self, class: usize) -> BoxedStrategy<Case> {
        let (_, c, kind) = self.classes[class].clone();
        let extra = prop_oneof![2 => Just(vec![]), 2 => prop::collection::vec(any::<u8>(), 1..40), 1 => prop::collection::vec(any::<u8>(), 64..101)];
        match kind {
            0 => (key_strategy(), hash_strategy(), extra).prop_map(move |(d, hv, extra)| Case::Sign { c, d, hv, extra, mutation: 0, pos: 0, val: 0 }).boxed(),
            1 => (key_strategy(), hash_strategy(), extra, 1u8..8, any::<u16>(), any::<u8>()).prop_map(move |(d, hv, extra, mutation, pos, val)| Case::Sign { c, d, hv, extra, mutation, pos, val }).boxed(),
            2 => (key_strategy(), key_strategy(), boundary_int(c), prop::sample::select(vec![1u8, 2, 31, 32, 33, 64, 65]), prop::sample::select(vec![0u8, 0, 0x01, 0x10, 0x11, 0x07, 0x70, 0x90, 0xF3])).prop_map(move |(d, k, s, half_len, pad)| Case::Forged { c, d, k, s, half_len, pad }).boxed(),
            3 => (key_strategy(), boundary_int(c), boundary_int(c), hash_strategy(), prop::sample::select(vec![32u8, 32, 33, 31, 40])).prop_map(move |(d, r, s, hv, half_len)| Case::Range { c, d, r, s, hv, half_len }).boxed(),
            4 => (
                prop_oneof![2 => crate::props::c06::dec_strategy(2 + c as usize, 0), 1 => crate::props::c06::dec_strategy(2 + c as usize, 5), 1 => prop::collection::vec(any::<u8>(), 0..70)],
                prop::sample::select(vec![0usize, 1, 2, 62, 63, 64, 65, 66, 128, 130]).prop_flat_map(|n| prop::collection::vec(any::<u8>(), n)),
                hash_strategy(),
            )
                .prop_map(move |(pk, sig, hv)| Case::Raw { c, pk, sig, hv })
                .boxed(),
            7 => {
                let n = schemes()[c as usize].curve.order.clone();
                ((0..crate::gen::SCALAR_CLASSES.len()).prop_flat_map(move |k| crate::gen::scalar_strategy(&n, k)), prop::collection::vec(any::<u8>(), 40), key_strategy(), any::<bool>())
                    .prop_map(move |(u, v, d, swap)| Case::ChosenUV { c, d, u: u.to_bytes_le(), v, swap })
                    .boxed()
            }
            6 => (
                prop_oneof![2 => prop::collection::vec(any::<u8>(), 32), 1 => (0u8..8).prop_map(|i| vec![i]), 1 => (1u16..400).prop_map(move |i| { let sch = &schemes()[c as usize]; (sch.curve.p.clone() - &sch.curve.order - BigUint::from(i)).to_bytes_le() })],
                any::<bool>(), any::<bool>(), boundary_int(c), prop::collection::vec(any::<u8>(), 32), prop::sample::select(vec![false, false, true]), prop::sample::select(vec![32u8, 32, 33, 40]),
            )
                .prop_map(move |(xoff, above_n, odd, s, h, present_unreduced, half_len)| Case::WrapX { c, xoff, above_n, odd, s, h, present_unreduced, half_len })
                .boxed(),
            _ => prop_oneof![
                (boundary_int(c), prop::sample::select(vec![32usize, 32, 32, 31, 33, 0])).prop_map(move |(x, l)| { let mut b = pf::from_le(&x).to_bytes_be(); if b.len() > l { b = b[b.len() - l..].to_vec(); } let mut v = vec![0u8; l - b.len()]; v.extend(b); Case::KeyDec { c, b: v, private: true } }),
                (0..crate::props::c06::DEC_CLASSES.len()).prop_flat_map(move |k| crate::props::c06::dec_strategy(2 + c as usize, k)).prop_map(move |b| Case::KeyDec { c, b, private: false }),
            ]
            .boxed(),
        }
    }
    fn check(&self, c: &Case) -> Outcome {
        check(c)
    }
}
