pub mod c01;

use crate::engine::DynProperty;

pub fn all() -> Vec<Box<dyn DynProperty>> {
    vec![Box::new(c01::C01::new())]
}

pub fn by_id(id: &str) -> Option<Box<dyn DynProperty>> {
    all().into_iter().find(|p| p.id() == id)
}
