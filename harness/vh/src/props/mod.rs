pub mod c01;
pub mod c03;
pub mod c04;
pub mod c06;
pub mod c07;
pub mod c08;
pub mod c09;
pub mod c10;
pub mod c05;
pub mod c11;
pub mod c12;
pub mod c13;
pub mod c14;
pub mod c15;
pub mod c16;
pub mod c17;
pub mod c19;
pub mod c20;

use crate::engine::DynProperty;

pub fn by_id(id: &str) -> Option<Box<dyn DynProperty>> {
    Some(match id {
        "C01" => Box::new(c01::C01::new()),
        "C03" => Box::new(c03::C03::new()),
        "C04" => Box::new(c04::C04::new()),
        "C05" => Box::new(c05::C05::new()),
        "C06" => Box::new(c06::C06::new()),
        "C07" => Box::new(c07::C07::new()),
        "C08" => Box::new(c08::C08::new()),
        "C09" => Box::new(c09::C09::new()),
        "C10" => Box::new(c10::C10::new()),
        "C11" => Box::new(c11::C11::new()),
        "C12" => Box::new(c12::C12::new()),
        "C13" => Box::new(c13::C13),
        "C14" => Box::new(c14::C14),
        "C15" => Box::new(c15::C15),
        "C16" => Box::new(c16::C16),
        "C17" => Box::new(c17::C17::new()),
        "C19" => Box::new(c19::C19::new()),
        "C20" => Box::new(c20::C20::new()),
        _ => return None,
    })
}

pub const IDS: &[&str] = &["C01", "C03", "C04", "C05", "C06", "C07", "C08", "C09", "C10", "C11", "C12", "C13", "C14", "C15", "C16", "C17", "C19", "C20"];
