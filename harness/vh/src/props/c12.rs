//! C12 - division, inversion, square root, Legendre symbol (and binary-field counterparts).

use crate::binfield::{e127, e254, enc127, m127, m254};
use crate::engine::*;
use crate::fieldapi::PF;
use crate::ftypes::{all_infos, build_fv, leak, TypeInfo};
use crate::gen::{self, int_of_fv, FV, LIMB_CLASSES};
use num_bigint::BigUint;
use num_traits::Zero;
use proptest::prelude::*;
use refmodel::bf::{self, F254};
use refmodel::pf;
use serde::{Deserialize, Serialize};

#[derive(Clone, Debug, Hash, Serialize, Deserialize)]
pub enum Case {
    Div { ty: u16, tyname: String, x: FV, y: FV, form: u8 },
    Batch { ty: u16, tyname: String, n: usize, seeds: Vec<FV>, zeros: Vec<usize> },
    Bin { a: [u64; 4], b: [u64; 4], form: u8 },
}

pub struct C12 {
    infos: Vec<TypeInfo>,
    table: Vec<fn(&Case) -> Outcome>,
    classes: Vec<(ClassSpec, Kind)>,
}

#[derive(Clone)]
enum Kind {
    Div(usize, usize, bool),
    Batch(usize),
    Bin(usize),
}

fn check_t<T: PF>(case: &Case) -> Outcome {
    let mut acc = Acc::new();
    let q = T::modulus();
    match case {
        Case::Div { x, y, form, .. } => {
            let (ex, ey): (T, T) = (build_fv(x), build_fv(y));
            let (ix, iy) = (int_of_fv(x, &q), int_of_fv(y, &q));
            let f = *form;
            acc.nt(!y.chain.is_empty() || gen::src_is_raw_big(&y.src, &q) || iy.is_zero() || iy.bits() < 200 || (&q - &iy).bits() < 200 || iy.trailing_zeros().unwrap_or(0) >= 51);
            if iy.is_zero() {
                acc.tag("divisor_zero");
            }
            if iy.trailing_zeros().unwrap_or(0) >= 51 {
                acc.tag("divisor_low_bits_zero");
            }
            // x / y
            let exp = if iy.is_zero() { BigUint::zero() } else { pf::div(&ix, &iy, &q) };
            let r = guard(|| T::to_int(T::div(ex, ey, f)));
            acc.check(r.as_ref().ok() == Some(&exp), || format!("C12:{}:div", T::NAME), || format!("x/y: got {:?} expected {:x} (x={:x} y={:x})", r.as_ref().map(|v| format!("{v:x}")), exp, ix, iy));
            // (x/y)*y == x through the library itself
            let r2 = guard(|| T::to_int(T::mul(T::div(ex, ey, f), ey, 0)));
            let exp2 = if iy.is_zero() { BigUint::zero() } else { ix.clone() };
            acc.check(r2.as_ref().ok() == Some(&exp2), || format!("C12:{}:div_mul", T::NAME), || format!("(x/y)*y: got {:?} expected {:x}", r2.as_ref().map(|v| format!("{v:x}")), exp2));
            if T::HAS_INVERT {
                let r = guard(|| T::to_int(T::invert(ey)));
                let exp = pf::inv(&iy, &q);
                acc.check(r.as_ref().ok() == Some(&exp), || format!("C12:{}:invert", T::NAME), || format!("invert(y): got {:?} expected {:x}", r.as_ref().map(|v| format!("{v:x}")), exp));
            }
            // Legendre symbol of y and of x
            for (name, e, i) in [("y", ey, &iy), ("x", ex, &ix)] {
                let r = guard(|| T::legendre(e));
                let exp = pf::legendre(i, &q);
                acc.check(r.as_ref().ok() == Some(&exp), || format!("C12:{}:legendre", T::NAME), || format!("legendre({name}={:x}): got {:?} expected {}", i, r, exp));
            }
            if T::HAS_SQRT {
                // y itself (square or not), y^2 (always a square), and -y^2 / 2y^2 flavours through sqrt_ext
                let ysq = pf::mul(&iy, &iy, &q);
                let eysq = T::square(ey, 0);
                for (name, e, i) in [("y", ey, &iy), ("y^2", eysq, &ysq)] {
                    let is_sq = pf::legendre(i, &q) >= 0;
                    let r = guard(|| {
                        let (r, s) = T::sqrt(e);
                        (T::to_int(r), s)
                    });
                    let ok = match &r {
                        Ok((root, s)) => {
                            if is_sq {
                                *s == 0xFFFFFFFF && pf::mul(root, root, &q) == *i && !root.bit(0)
                            } else {
                                *s == 0 && root.is_zero()
                            }
                        }
                        Err(_) => false,
                    };
                    acc.check(ok, || format!("C12:{}:sqrt", T::NAME), || format!("sqrt({name}={:x}) is_square={} -> {:?}", i, is_sq, r.as_ref().map(|(v, s)| (format!("{v:x}"), format!("{s:08x}")))));
                    if T::HAS_SQRT_EXT {
                        let r = guard(|| {
                            let (r, s) = T::sqrt_ext(e);
                            (T::to_int(r), s)
                        });
                        let ok = match &r {
                            Ok((root, s)) => {
                                let r2 = pf::mul(root, root, &q);
                                if is_sq {
                                    *s == 0xFFFFFFFF && r2 == *i && !root.bit(0)
                                } else {
                                    // documented substitute: q = 3 mod 4 -> sqrt(-x); q = 5 mod 8 -> sqrt(2x) or sqrt(-2x)
                                    let q8 = (&q % 8u32).to_u32_digits().first().copied().unwrap_or(0);
                                    let m = pf::neg(i, &q);
                                    let two = pf::add(i, i, &q);
                                    let mtwo = pf::neg(&two, &q);
                                    *s == 0 && if q8 % 4 == 3 { r2 == m } else { r2 == two || r2 == mtwo }
                                }
                            }
                            Err(_) => false,
                        };
                        acc.check(ok, || format!("C12:{}:sqrt_ext", T::NAME), || format!("sqrt_ext({name}={:x}) is_square={} -> {:?}", i, is_sq, r.as_ref().map(|(v, s)| (format!("{v:x}"), format!("{s:08x}")))));
                    }
                }
            }
        }
        Case::Batch { n, seeds, zeros, .. } => {
            let es: Vec<T> = seeds.iter().map(build_fv::<T>).collect();
            let is: Vec<BigUint> = seeds.iter().map(|v| int_of_fv(v, &q)).collect();
            let mut xs: Vec<T> = Vec::with_capacity(*n);
            let mut ints: Vec<BigUint> = Vec::with_capacity(*n);
            for i in 0..*n {
                if zeros.contains(&i) || es.is_empty() {
                    xs.push(T::zero());
                    ints.push(BigUint::zero());
                } else {
                    let k = i % es.len();
                    xs.push(T::mul(es[k], T::from_u32(i as u32 + 1), 0));
                    ints.push(pf::mul(&is[k], &BigUint::from(i as u32 + 1), &q));
                }
            }
            acc.nt(*n == 0 || *n >= 199 || !zeros.is_empty());
            if *n > 200 {
                acc.tag("batch_multi_block");
            }
            let r = guard(|| {
                T::batch_invert(&mut xs);
                xs.iter().map(|x| T::to_int(*x)).collect::<Vec<_>>()
            });
            let exp: Vec<BigUint> = ints.iter().map(|i| pf::inv(i, &q)).collect();
            let bad = match &r {
                Ok(v) => v.iter().zip(exp.iter()).position(|(a, b)| a != b),
                Err(_) => Some(0),
            };
            acc.check(bad.is_none(), || format!("C12:{}:batch_invert", T::NAME), || format!("batch_invert(len {}) wrong at index {:?}: {:?}", n, bad, r.as_ref().err()));
        }
        Case::Bin { .. } => unreachable!(),
    }
    acc.done()
}

fn check_bin(a: &[u64; 4], b: &[u64; 4], form: u8) -> Outcome {
    let mut acc = Acc::new();
    // GF(2^127) on the first halves
    let (a1, b1) = (e127(&[a[0], a[1]]), e127(&[b[0], b[1]]));
    let (ma, mb) = (m127(&[a[0], a[1]]), m127(&[b[0], b[1]]));
    acc.nt(bf::red127(mb) == 0 || a[1] >> 63 != 0 || b[1] >> 63 != 0 || bf::red127(mb).count_ones() <= 2);
    let mut chk = |name: &'static str, got: Result<Vec<u8>, String>, exp: Vec<u8>| {
        let ok = got.as_ref().ok() == Some(&exp);
        acc.check(ok, || format!("C12:{name}"), || format!("{name}: got {:?} expected {}", got.as_ref().map(|b| hex(b)), hex(&exp)));
    };
    chk("GFb127:invert", guard(|| if form & 1 == 0 { b1.invert() } else { let mut r = b1; r.set_invert(); r }.encode().to_vec()), enc127(bf::inv127(mb)));
    chk("GFb127:div", guard(|| (a1 / b1).encode().to_vec()), enc127(bf::mul127(ma, bf::inv127(mb))));
    chk("GFb127:inv_mul", guard(|| (b1.invert() * b1).encode().to_vec()), enc127(if bf::red127(mb) == 0 { 0 } else { 1 }));
    chk("GFb127:sqrt", guard(|| if form & 2 == 0 { a1.sqrt() } else { let mut r = a1; r.set_sqrt(); r }.encode().to_vec()), enc127(bf::sqrt127(ma)));
    chk("GFb127:sqrt_sq", guard(|| a1.sqrt().square().encode().to_vec()), enc127(ma));
    chk("GFb127:halftrace", guard(|| if form & 4 == 0 { a1.halftrace() } else { let mut r = a1; r.set_halftrace(); r }.encode().to_vec()), enc127(bf::halftrace127(ma)));
    // defining equation H(a)^2 + H(a) = a + Tr(a)
    chk("GFb127:halftrace_eq", guard(|| { let h = a1.halftrace(); (h.square() + h).encode().to_vec() }), enc127(bf::red127(ma) ^ (bf::trace127(ma) as u128)));
    drop(chk);
    let t = guard(|| a1.trace());
    acc.check(t.as_ref().ok() == Some(&bf::trace127(ma)), || "C12:GFb127:trace".into(), || format!("trace: got {:?} expected {}", t, bf::trace127(ma)));

    // GF(2^254)
    let (xa, xb) = (e254(a, form), e254(b, form >> 3));
    let (fa, fb) = (m254(a), m254(b));
    let mut chk = |name: &'static str, got: Result<Vec<u8>, String>, exp: F254| {
        let ok = got.as_ref().ok().map(|v| &v[..]) == Some(&exp.encode()[..]);
        acc.check(ok, || format!("C12:{name}"), || format!("{name}: got {:?} expected {}", got.as_ref().map(|b| hex(b)), hex(&exp.encode())));
    };
    chk("GFb254:invert", guard(|| if form & 1 == 0 { xb.invert() } else { let mut r = xb; r.set_invert(); r }.encode().to_vec()), fb.inv());
    chk("GFb254:div", guard(|| (xa / xb).encode().to_vec()), fa.mul(fb.inv()));
    chk("GFb254:inv_mul", guard(|| (xb.invert() * xb).encode().to_vec()), if fb.is_zero() { F254::ZERO } else { F254::ONE });
    chk("GFb254:sqrt", guard(|| if form & 2 == 0 { xa.sqrt() } else { let mut r = xa; r.set_sqrt(); r }.encode().to_vec()), fa.sqrt());
    chk("GFb254:sqrt_sq", guard(|| xa.sqrt().square().encode().to_vec()), fa.norm());
    // qsolve: x^2 + x = a + u*Tr(a)
    let tr = fa.trace();
    chk("GFb254:qsolve_eq", guard(|| { let x = if form & 4 == 0 { xa.qsolve() } else { let mut r = xa; r.set_qsolve(); r }; (x.square() + x).encode().to_vec() }), fa.add(F254(0, tr as u128)));
    drop(chk);
    let t = guard(|| xa.trace());
    acc.check(t.as_ref().ok() == Some(&tr), || "C12:GFb254:trace".into(), || format!("trace: got {:?} expected {}", t, tr));
    acc.done()
}

impl C12 {
    pub fn new() -> Self {
        let infos = all_infos();
        let mut table: Vec<fn(&Case) -> Outcome> = Vec::new();
        macro_rules! push {
            ($t:ty) => {
                table.push(check_t::<$t> as fn(&Case) -> Outcome);
            };
        }
        crate::for_all_pf!(push);
        let mut classes = Vec::new();
        for (ti, info) in infos.iter().enumerate() {
            for (lc, n) in LIMB_CLASSES.iter().enumerate() {
                classes.push((cls(leak(format!("{}/div/{}", info.name, n)), 600, 100_000), Kind::Div(ti, lc, false)));
            }
            classes.push((cls(leak(format!("{}/div/chain", info.name)), 1200, 200_000), Kind::Div(ti, 0, true)));
            classes.push((cls(leak(format!("{}/batch", info.name)), 40, 4_000), Kind::Batch(ti)));
        }
        for (i, n) in crate::binfield::B_CLASSES.iter().enumerate() {
            classes.push((cls(leak(format!("GFb/{}", n)), 600, 100_000), Kind::Bin(i)));
        }
        C12 { infos, table, classes }
    }
}

impl Property for C12 {
    type Case = Case;
    fn id(&self) -> &'static str {
        "C12"
    }
    fn rule(&self) -> String {
        "Div cases: (x, y) field values (divisor drawn from every limb class: uniform, raw >= q, boundary set, limb patterns, 2^k+-d, q-2^k, low 51..204 bits zero, sharing 8..250 top bits with q, small, operation chains); checks x/y against Fermat inverse in the model, (x/y)*y, invert, legendre(x), legendre(y) against Euler's criterion, sqrt / sqrt_ext of y and of y^2 (status iff square, root^2 == input, root lsb 0, zero or the documented substitute root on failure). Batch cases: batch_invert on slices of length 0,1,2,199,200,201,399,400,401,1000 with zeros at the ends and block joints vs element-wise inverse. Bin cases: invert, /, sqrt, trace, halftrace (exact and defining equation), qsolve (defining equation) in GF(2^127)/GF(2^254). Non-trivial: divisor zero / short / close to q / low bits zero / non-canonical / chain; batch length 0 or >= 199 or containing zeros. distinct = distinct case hash.".into()
    }
    fn classes(&self) -> Vec<ClassSpec> {
        self.classes.iter().map(|c| c.0.clone()).collect()
    }
    fn strategy(&self, class: usize) -> BoxedStrategy<Case> {
        match self.classes[class].1.clone() {
            Kind::Div(ty, lc, chain) => {
                let info = &self.infos[ty];
                let name = info.name.to_string();
                (gen::any_fv(&info.modulus, info.nlimbs, info.mq_hint), gen::fv_strategy(&info.modulus, info.nlimbs, lc, info.mq_hint, chain), any::<u8>())
                    .prop_map(move |(x, y, form)| Case::Div { ty: ty as u16, tyname: name.clone(), x, y, form })
                    .boxed()
            }
            Kind::Batch(ty) => {
                let info = &self.infos[ty];
                let name = info.name.to_string();
                (
                    prop::sample::select(vec![0usize, 1, 2, 3, 199, 200, 201, 399, 400, 401, 1000]),
                    prop::collection::vec(gen::any_fv(&info.modulus, info.nlimbs, info.mq_hint), 1..6),
                    prop::collection::vec(prop_oneof![Just(0usize), Just(199usize), Just(200usize), Just(201usize), Just(399usize), Just(400usize), 0usize..1000], 0..4),
                    any::<bool>(),
                )
                    .prop_map(move |(n, seeds, mut zeros, last)| {
                        if last && n > 0 {
                            zeros.push(n - 1);
                        }
                        zeros.retain(|z| *z < n);
                        Case::Batch { ty: ty as u16, tyname: name.clone(), n, seeds, zeros }
                    })
                    .boxed()
            }
            Kind::Bin(c) => crate::binfield::b254_strategy(c).prop_map(|c| Case::Bin { a: c.a, b: c.b, form: c.form }).boxed(),
        }
    }
    fn check(&self, case: &Case) -> Outcome {
        match case {
            Case::Bin { a, b, form } => check_bin(a, b, *form),
            Case::Div { ty, tyname, .. } | Case::Batch { ty, tyname, .. } => {
                let mut i = *ty as usize;
                if i >= self.infos.len() || self.infos[i].name != tyname {
                    match self.infos.iter().position(|x| x.name == tyname) {
                        Some(j) => i = j,
                        None => return Outcome::pass(false),
                    }
                }
                (self.table[i])(case)
            }
        }
    }
}
