//! C20 - masked selection primitives (fields; the point types are added by `points`).

use crate::binfield::{e127, e254, m254};
use crate::engine::*;
use crate::fieldapi::PF;
use crate::ftypes::{all_infos, build_fv, leak, TypeInfo};
use crate::gen::{self, int_of_fv, Src, FV};
use crrl::field::{GFb127, GFb254};
use num_bigint::BigUint;
use num_traits::Zero;
use proptest::prelude::*;
use refmodel::pf;
use serde::{Deserialize, Serialize};

#[derive(Clone, Debug, Hash, Serialize, Deserialize)]
pub enum Case {
    Sel { ty: u16, tyname: String, a: FV, b: FV, same: u8, k: u8 },
    /// GF255 lookups: table seeds (expanded deterministically), index j
    Lookup { ty: u16, tyname: String, seeds: Vec<FV>, j: u32 },
    Bin { a: [u64; 4], b: [u64; 4], seeds: Vec<[u64; 4]>, j: u32, same: bool },
    Point(crate::points::SelCase),
}

pub const J_VALUES: &[u32] = &[0, 1, 2, 3, 4, 5, 6, 7, 8, 9, 10, 11, 12, 13, 14, 15, 16, 17, 31, 32, 255, 256, 0x7FFFFFFF, 0x80000000, 0xFFFFFFF0, 0xFFFFFFFF];

pub struct C20 {
    infos: Vec<TypeInfo>,
    table: Vec<fn(&Case) -> Outcome>,
    classes: Vec<(ClassSpec, Kind)>,
}

#[derive(Clone)]
enum Kind {
    Sel(usize, bool),
    Lookup(usize),
    Bin,
    Point(usize),
}

pub trait LK: PF {
    fn lookup3(tab: &[Self; 48], j: u32) -> [Self; 3];
    fn lookup4(tab: &[Self; 64], j: u32) -> [Self; 4];
}
macro_rules! impl_lk {
    ($t:ty) => {
        impl LK for $t {
            fn lookup3(tab: &[Self; 48], j: u32) -> [Self; 3] {
                <$t>::lookup16_x3(tab, j)
            }
            fn lookup4(tab: &[Self; 64], j: u32) -> [Self; 4] {
                <$t>::lookup16_x4(tab, j)
            }
        }
    };
}
impl_lk!(crate::fieldapi::t::GF25519);
impl_lk!(crate::fieldapi::t::GF255e);
impl_lk!(crate::fieldapi::t::GF255s);
impl_lk!(crate::fieldapi::t::GF255_31);
impl_lk!(crate::fieldapi::t::GF255_921);
impl_lk!(crate::fieldapi::t::GF255_32715);

fn check_lookup<T: LK>(seeds: &[FV], j: u32) -> Outcome {
    let mut acc = Acc::new();
    let q = T::modulus();
    let es: Vec<T> = seeds.iter().map(build_fv::<T>).collect();
    let is: Vec<BigUint> = seeds.iter().map(|v| int_of_fv(v, &q)).collect();
    let mut tab = [T::zero(); 64];
    let mut itab: Vec<BigUint> = Vec::new();
    for i in 0..64 {
        let k = i % es.len();
        // distinct entries: seed + i (so that a wrong index is visible)
        tab[i] = T::add(es[k], T::from_u32(i as u32), 0);
        itab.push(pf::add(&is[k], &BigUint::from(i as u32), &q));
    }
    acc.nt(true);
    if j >= 16 {
        acc.tag("lookup_out_of_range");
    }
    let mut t48 = [T::zero(); 48];
    t48.copy_from_slice(&tab[..48]);
    let r3 = guard(|| T::lookup3(&t48, j).map(T::to_int));
    let exp3: Vec<BigUint> = (0..3).map(|i| if j < 16 { itab[(j as usize) * 3 + i].clone() } else { BigUint::zero() }).collect();
    acc.check(r3.as_ref().ok().map(|v| v.to_vec()) == Some(exp3.clone()), || format!("C20:{}:lookup16_x3", T::NAME), || format!("lookup16_x3(j={j}) -> {:?} expected {:?}", r3, exp3));
    let r4 = guard(|| T::lookup4(&tab, j).map(T::to_int));
    let exp4: Vec<BigUint> = (0..4).map(|i| if j < 16 { itab[(j as usize) * 4 + i].clone() } else { BigUint::zero() }).collect();
    acc.check(r4.as_ref().ok().map(|v| v.to_vec()) == Some(exp4.clone()), || format!("C20:{}:lookup16_x4", T::NAME), || format!("lookup16_x4(j={j}) -> {:?} expected {:?}", r4, exp4));
    acc.done()
}

fn check_t<T: PF>(case: &Case) -> Outcome {
    let mut acc = Acc::new();
    let q = T::modulus();
    let Case::Sel { a, b, same, k, .. } = case else { unreachable!() };
    let ea: T = build_fv(a);
    let ia = int_of_fv(a, &q);
    // "same" selects how b relates to a: 0 = independent, 1 = same source, 2 = a + k*q through raw limbs, 3 = a through the canonical integer
    let (eb, ib): (T, BigUint) = match same % 4 {
        1 => (build_fv(a), ia.clone()),
        2 => {
            let x = &ia + &q * (1 + (*k % 3) as u32);
            if x.bits() <= 64 * T::NLIMBS as u64 {
                acc.tag("equal_value_other_representation");
                (T::from_limbs(&pf::to_limbs_le(&x, T::NLIMBS), *k), ia.clone())
            } else {
                (build_fv(b), int_of_fv(b, &q))
            }
        }
        3 => (T::from_limbs(&pf::to_limbs_le(&ia, T::NLIMBS), *k), ia.clone()),
        _ => (build_fv(b), int_of_fv(b, &q)),
    };
    acc.nt(same % 4 != 0 || !a.chain.is_empty() || gen::src_is_raw_big(&a.src, &q) || ia.is_zero() || ia == ib);
    let enc = |x: T| T::encode(x);
    let (ba, bb) = (enc(ea), enc(eb));
    for ctl in [0u32, 0xFFFFFFFF] {
        // set_cond
        let r = guard(|| {
            let mut x = ea;
            T::set_cond(&mut x, &eb, ctl);
            enc(x)
        });
        let exp = if ctl == 0 { &ba } else { &bb };
        acc.check(r.as_ref().ok() == Some(exp), || format!("C20:{}:set_cond", T::NAME), || format!("set_cond(ctl={ctl:08x}) -> {:?} expected {}", r.as_ref().map(|b| hex(b)), hex(exp)));
        // select
        let r = guard(|| enc(T::select(&ea, &eb, ctl)));
        acc.check(r.as_ref().ok() == Some(exp), || format!("C20:{}:select", T::NAME), || format!("select(ctl={ctl:08x}) -> {:?} expected {}", r.as_ref().map(|b| hex(b)), hex(exp)));
        // cswap
        let r = guard(|| {
            let (mut x, mut y) = (ea, eb);
            T::cswap(&mut x, &mut y, ctl);
            (enc(x), enc(y))
        });
        let expp = if ctl == 0 { (ba.clone(), bb.clone()) } else { (bb.clone(), ba.clone()) };
        acc.check(r.as_ref().ok() == Some(&expp), || format!("C20:{}:cswap", T::NAME), || format!("cswap(ctl={ctl:08x}) -> {:?}", r.as_ref().map(|(a, b)| (hex(a), hex(b)))));
    }
    // equals / iszero on mathematical values
    let r = guard(|| (T::equals(ea, eb), T::equals(eb, ea)));
    let exp = if ia == ib { 0xFFFFFFFFu32 } else { 0 };
    acc.check(r.as_ref().ok() == Some(&(exp, exp)), || format!("C20:{}:equals", T::NAME), || format!("equals -> {:?} expected {exp:08x} (a={:x} b={:x})", r, ia, ib));
    for (e, i) in [(ea, &ia), (eb, &ib), (T::sub(ea, eb, 0), &pf::sub(&ia, &ib, &q))] {
        let r = guard(|| T::iszero(e));
        let exp = if i.is_zero() { 0xFFFFFFFFu32 } else { 0 };
        acc.check(r.as_ref().ok() == Some(&exp), || format!("C20:{}:iszero", T::NAME), || format!("iszero({:x}) -> {:?}", i, r));
    }
    acc.done()
}

fn check_bin(a: &[u64; 4], b: &[u64; 4], seeds: &[[u64; 4]], j: u32, same: bool) -> Outcome {
    let mut acc = Acc::new();
    acc.nt(true);
    let b = if same { a } else { b };
    let (xa, xb) = (e254(a, 0), e254(b, 0));
    let (fa, fb) = (m254(a), m254(b));
    let (ea, eb) = (fa.encode().to_vec(), fb.encode().to_vec());
    for ctl in [0u32, 0xFFFFFFFF] {
        let exp = if ctl == 0 { &ea } else { &eb };
        let r = guard(|| { let mut x = xa; x.set_cond(&xb, ctl); x.encode().to_vec() });
        acc.check(r.as_ref().ok() == Some(exp), || "C20:GFb254:set_cond".into(), || format!("GFb254 set_cond({ctl:08x}) -> {:?}", r));
        let r = guard(|| GFb254::select(&xa, &xb, ctl).encode().to_vec());
        acc.check(r.as_ref().ok() == Some(exp), || "C20:GFb254:select".into(), || format!("GFb254 select({ctl:08x}) -> {:?}", r));
        let r = guard(|| { let (mut x, mut y) = (xa, xb); GFb254::cswap(&mut x, &mut y, ctl); (x.encode().to_vec(), y.encode().to_vec()) });
        let expp = if ctl == 0 { (ea.clone(), eb.clone()) } else { (eb.clone(), ea.clone()) };
        acc.check(r.as_ref().ok() == Some(&expp), || "C20:GFb254:cswap".into(), || format!("GFb254 cswap({ctl:08x}) -> {:?}", r));
        // GFb127 on the halves
        let (ha, hb) = (e127(&[a[0], a[1]]), e127(&[b[2], b[3]]));
        let (ha_e, hb_e) = (ha.encode().to_vec(), hb.encode().to_vec());
        let exp = if ctl == 0 { &ha_e } else { &hb_e };
        let r = guard(|| { let mut x = ha; x.set_cond(&hb, ctl); x.encode().to_vec() });
        acc.check(r.as_ref().ok() == Some(exp), || "C20:GFb127:set_cond".into(), || format!("GFb127 set_cond({ctl:08x}) -> {:?}", r));
        let r = guard(|| GFb127::select(&ha, &hb, ctl).encode().to_vec());
        acc.check(r.as_ref().ok() == Some(exp), || "C20:GFb127:select".into(), || format!("GFb127 select({ctl:08x}) -> {:?}", r));
        let r = guard(|| { let (mut x, mut y) = (ha, hb); GFb127::cswap(&mut x, &mut y, ctl); (x.encode().to_vec(), y.encode().to_vec()) });
        let expp = if ctl == 0 { (ha_e.clone(), hb_e.clone()) } else { (hb_e.clone(), ha_e.clone()) };
        acc.check(r.as_ref().ok() == Some(&expp), || "C20:GFb127:cswap".into(), || format!("GFb127 cswap({ctl:08x}) -> {:?}", r));
    }
    let eq = if fa.norm() == fb.norm() { 0xFFFFFFFFu32 } else { 0 };
    let r = guard(|| xa.equals(xb));
    acc.check(r.as_ref().ok() == Some(&eq), || "C20:GFb254:equals".into(), || format!("GFb254 equals -> {:?} expected {eq:08x}", r));
    let r = guard(|| (xa + xb).iszero());
    acc.check(r.as_ref().ok() == Some(&eq), || "C20:GFb254:iszero".into(), || format!("GFb254 iszero(a+b) -> {:?} expected {eq:08x}", r));
    let (ha, hb) = (e127(&[a[0], a[1]]), e127(&[b[0], b[1]]));
    let eq1 = if fa.norm().0 == fb.norm().0 { 0xFFFFFFFFu32 } else { 0 };
    let r = guard(|| (ha.equals(hb), (ha + hb).iszero()));
    acc.check(r.as_ref().ok() == Some(&(eq1, eq1)), || "C20:GFb127:equals".into(), || format!("GFb127 equals/iszero -> {:?} expected {eq1:08x}", r));
    // lookups
    if !seeds.is_empty() {
        let mut tab = [GFb254::ZERO; 32];
        let mut mtab = Vec::new();
        for i in 0..32 {
            let s = seeds[i % seeds.len()];
            let l = [s[0] ^ (i as u64), s[1], s[2] ^ ((i as u64) << 8), s[3]];
            tab[i] = e254(&l, 0);
            mtab.push(m254(&l).encode().to_vec());
        }
        let zero = vec![0u8; 32];
        if j >= 16 {
            acc.tag("lookup_out_of_range");
        }
        let exp_of = |n: u32| -> Vec<Vec<u8>> { (0..2).map(|i| if j < n { mtab[(j as usize) * 2 + i].clone() } else { zero.clone() }).collect() };
        let r = guard(|| GFb254::lookup16_x2(&tab, j).map(|x| x.encode().to_vec()).to_vec());
        acc.check(r.as_ref().ok() == Some(&exp_of(16)), || "C20:GFb254:lookup16_x2".into(), || format!("lookup16_x2(j={j}) wrong: {:?}", r.as_ref().map(|v| v.iter().map(|b| hex(b)).collect::<Vec<_>>())));
        let mut t16 = [GFb254::ZERO; 16];
        t16.copy_from_slice(&tab[..16]);
        let r = guard(|| GFb254::lookup8_x2(&t16, j).map(|x| x.encode().to_vec()).to_vec());
        acc.check(r.as_ref().ok() == Some(&exp_of(8)), || "C20:GFb254:lookup8_x2".into(), || format!("lookup8_x2(j={j}) wrong: {:?}", r.as_ref().map(|v| v.iter().map(|b| hex(b)).collect::<Vec<_>>())));
        let mut t8 = [GFb254::ZERO; 8];
        t8.copy_from_slice(&tab[..8]);
        let r = guard(|| GFb254::lookup4_x2(&t8, j).map(|x| x.encode().to_vec()).to_vec());
        acc.check(r.as_ref().ok() == Some(&exp_of(4)), || "C20:GFb254:lookup4_x2".into(), || format!("lookup4_x2(j={j}) wrong: {:?}", r.as_ref().map(|v| v.iter().map(|b| hex(b)).collect::<Vec<_>>())));
        if j < 4 {
            // documented precondition: index in range
            let r = guard(|| GFb254::lookup4_x2_nocheck(&t8, j).map(|x| x.encode().to_vec()).to_vec());
            acc.check(r.as_ref().ok() == Some(&exp_of(4)), || "C20:GFb254:lookup4_x2_nocheck".into(), || format!("lookup4_x2_nocheck(j={j}) wrong: {:?}", r.as_ref().map(|v| v.iter().map(|b| hex(b)).collect::<Vec<_>>())));
        }
    }
    acc.done()
}

impl C20 {
    pub fn new() -> Self {
        let infos = all_infos();
        let mut table: Vec<fn(&Case) -> Outcome> = Vec::new();
        macro_rules! push {
            ($t:ty) => {
                table.push(check_t::<$t> as fn(&Case) -> Outcome);
            };
        }
        crate::for_all_pf!(push);
        let mut classes = Vec::new();
        for (ti, info) in infos.iter().enumerate() {
            classes.push((cls(leak(format!("{}/sel/independent", info.name)), 2000, 300_000), Kind::Sel(ti, false)));
            classes.push((cls(leak(format!("{}/sel/related", info.name)), 2000, 300_000), Kind::Sel(ti, true)));
            if info.is_gf255 {
                classes.push((cls(leak(format!("{}/lookup", info.name)), 1500, 100_000), Kind::Lookup(ti)));
            }
        }
        classes.push((cls("GFb/sel_lookup", 6000, 600_000), Kind::Bin));
        for (i, n) in crate::points::GROUP_NAMES.iter().enumerate() {
            classes.push((cls(leak(format!("{}/point_sel", n)), 400, 40_000), Kind::Point(i)));
        }
        C20 { infos, table, classes }
    }
}

impl Property for C20 {
    type Case = Case;
    fn id(&self) -> &'static str {
        "C20"
    }
    fn rule(&self) -> String {
        "Sel cases: two field values a, b (b independent, the same construction, a + k*q through the raw constructor, or the canonical integer of a) and both control words: set_cond/select/cswap must leave encodings unchanged for 0 and fully copy/swap for 0xFFFFFFFF; equals/iszero must be all-ones iff the model integers are equal / zero, whatever the representation. Lookup cases: GF255 lookup16_x3/x4 and GFb254 lookup16/8/4_x2 (+ nocheck in range) on tables of distinct entries with j in {0..17, 31, 32, 255, 256, 2^31-1, 2^31, 2^32-16, 2^32-1}: in-range index returns exactly the designated entries, out-of-range returns zeros. Point cases: set_cond/select/set_condneg/equals/isneutral on every group through encodings. Non-trivial: related operands, non-canonical constructions, zero, out-of-range or boundary index. distinct = distinct case hash.".into()
    }
    fn classes(&self) -> Vec<ClassSpec> {
        self.classes.iter().map(|c| c.0.clone()).collect()
    }
    fn strategy(&self, class: usize) -> BoxedStrategy<Case> {
        match self.classes[class].1.clone() {
            Kind::Sel(ty, related) => {
                let info = &self.infos[ty];
                let name = info.name.to_string();
                let n = info.nlimbs;
                let a = if related {
                    // sources that admit a k*q shift: raw limbs below q
                    (0..gen::LIMB_CLASSES.len()).prop_flat_map({ let q = info.modulus.clone(); let mq = info.mq_hint; move |c| gen::fv_strategy(&q, n, c, mq, false) }).boxed()
                } else {
                    gen::any_fv(&info.modulus, n, info.mq_hint)
                };
                (a, gen::any_fv(&info.modulus, n, info.mq_hint), if related { (1u8..4).boxed() } else { Just(0u8).boxed() }, any::<u8>())
                    .prop_map(move |(a, b, same, k)| Case::Sel { ty: ty as u16, tyname: name.clone(), a, b, same, k })
                    .boxed()
            }
            Kind::Lookup(ty) => {
                let info = &self.infos[ty];
                let name = info.name.to_string();
                (prop::collection::vec(gen::any_fv(&info.modulus, info.nlimbs, info.mq_hint), 1..5), prop_oneof![3 => prop::sample::select(J_VALUES.to_vec()), 1 => any::<u32>()])
                    .prop_map(move |(seeds, j)| Case::Lookup { ty: ty as u16, tyname: name.clone(), seeds, j })
                    .boxed()
            }
            Kind::Bin => (
                prop::array::uniform4(any::<u64>()),
                prop::array::uniform4(any::<u64>()),
                prop::collection::vec(prop::array::uniform4(any::<u64>()), 1..4),
                prop_oneof![3 => prop::sample::select(J_VALUES.to_vec()), 1 => any::<u32>()],
                prop::bool::weighted(0.3),
                0u8..10,
                any::<u64>(),
            )
                .prop_map(|(a, mut b, seeds, j, same, mode, d)| {
                    // pairs that are equal / different in exactly one component, through one or two representations
                    // (x ^ (z^127 + z^63 + 1) is the same element of GF(2^127) written with bit 127 set)
                    let d = d | 1;
                    match mode {
                        2 => { b = a; b[0] ^= d; }                       // differ in the low limb of x0 only
                        3 => { b = a; b[1] ^= d >> 1 | 1; }              // differ in the high limb of x0 only
                        4 => { b = a; b[2] ^= d; }                       // differ in x1 only
                        5 => { b = a; b[3] ^= d >> 1 | 1; }
                        6 => { b = a; b[0] ^= (1 << 63) | 1; b[1] ^= 1 << 63; }   // same element, other representation of x0
                        7 => { b = a; b[2] ^= (1 << 63) | 1; b[3] ^= 1 << 63; }   // same element, other representation of x1
                        8 => { b = a; b[2] = 0; b[3] = 0; }              // b in the subfield (x1 = 0), equal to a in x0
                        9 => { b = a; b[0] = 0; b[1] = 0; }              // x0 = 0, equal to a in x1
                        _ => {}
                    }
                    Case::Bin { a, b, seeds, j, same: same && mode < 2 }
                })
                .boxed(),
            Kind::Point(g) => crate::points::sel_strategy(g).prop_map(Case::Point).boxed(),
        }
    }
    fn check(&self, case: &Case) -> Outcome {
        match case {
            Case::Bin { a, b, seeds, j, same } => check_bin(a, b, seeds, *j, *same),
            Case::Point(c) => crate::points::check_sel(c),
            Case::Lookup { tyname, seeds, j, .. } => {
                use crate::fieldapi::t::*;
                match tyname.as_str() {
                    "GF25519" => check_lookup::<GF25519>(seeds, *j),
                    "GF255e" => check_lookup::<GF255e>(seeds, *j),
                    "GF255s" => check_lookup::<GF255s>(seeds, *j),
                    "GF255<31>" => check_lookup::<GF255_31>(seeds, *j),
                    "GF255<921>" => check_lookup::<GF255_921>(seeds, *j),
                    _ => check_lookup::<GF255_32715>(seeds, *j),
                }
            }
            Case::Sel { ty, tyname, .. } => {
                let mut i = *ty as usize;
                if i >= self.infos.len() || self.infos[i].name != tyname {
                    match self.infos.iter().position(|x| x.name == tyname) {
                        Some(j) => i = j,
                        None => return Outcome::pass(false),
                    }
                }
                (self.table[i])(case)
            }
        }
    }
}

#[allow(dead_code)]
fn _unused(_: &Src) {}
