//! C05 - field and scalar encodings are canonical; decoding is strict.

use crate::engine::*;
use crate::fieldapi::PF;
use crate::ftypes::{all_infos, build_fv, leak, TypeInfo};
use crate::gen::{self, int_of_fv, FV};
use crrl::field::{GFb127, GFb254};
use num_bigint::BigUint;
use num_traits::{One, Zero};
use proptest::prelude::*;
use refmodel::pf;
use serde::{Deserialize, Serialize};

#[derive(Clone, Debug, Hash, Serialize, Deserialize)]
pub enum Case {
    /// decode a byte string with every decoder of the type
    Dec { ty: u16, tyname: String, b: Vec<u8>, form: u8 },
    /// encode a constructed value, then decode it back
    Enc { ty: u16, tyname: String, v: FV },
    /// binary fields: decode bytes (both GFb127 on the first half and GFb254)
    Bin { b: Vec<u8>, form: u8 },
}

pub struct C05 {
    infos: Vec<TypeInfo>,
    table: Vec<fn(&Case) -> Outcome>,
    classes: Vec<(ClassSpec, Kind)>,
}

#[derive(Clone)]
enum Kind {
    Dec(usize, usize),
    Enc(usize),
    Bin(usize),
}

pub const BYTE_CLASSES: &[&str] = &["near_modulus", "lengths", "uniform_len", "valid_mutated", "multiblock_reduce", "multiblock_words"];

/// byte-string strategy around a modulus q with nominal encoding length `l`
pub fn bytes_strategy(q: &BigUint, l: usize, class: usize) -> BoxedStrategy<Vec<u8>> {
    let q = q.clone();
    match BYTE_CLASSES[class % BYTE_CLASSES.len()] {
        "near_modulus" => {
            // integers m-2..m+2, 2^k - 1, 2^k, k*m +- 1, all as l-byte (or 32-byte) strings when they fit
            (0u32..6, -3i32..=3, prop::sample::select(vec![l, 32, l + 1]))
                .prop_map(move |(k, d, len)| {
                    let base = match k {
                        0 => q.clone(),
                        1 => &q * 2u32,
                        2 => BigUint::one() << (8 * l - 1),
                        3 => (BigUint::one() << (8 * l)) - 1u32,
                        4 => BigUint::one() << (q.bits() - 1),
                        _ => BigUint::zero(),
                    };
                    let x = if d >= 0 { base + (d as u32) } else if base >= BigUint::from((-d) as u32) { base - ((-d) as u32) } else { base };
                    let mut b = x.to_bytes_le();
                    if b.len() > len {
                        b.truncate(len);
                    }
                    b.resize(len, 0);
                    b
                })
                .boxed()
        }
        "lengths" => {
            let lens = vec![0usize, 1, l - 1, l, l + 1, 31, 32, 33, 2 * l, 2 * l + 1, 4 * l + 3];
            (prop::sample::select(lens), any::<bool>())
                .prop_flat_map(move |(n, small)| {
                    if small {
                        // a canonical value on a wrong length
                        prop::collection::vec(prop_oneof![Just(0u8), Just(1u8)], n).boxed()
                    } else {
                        prop::collection::vec(any::<u8>(), n).boxed()
                    }
                })
                .boxed()
        }
        "uniform_len" => prop::collection::vec(any::<u8>(), l).boxed(),
        "valid_mutated" => {
            let q2 = q.clone();
            (prop::collection::vec(any::<u8>(), l + 8), 0usize..5, any::<usize>(), any::<u8>())
                .prop_map(move |(raw, m, pos, val)| {
                    let x = pf::from_le(&raw) % &q2;
                    let mut b = pf::to_le(&x, l);
                    match m {
                        0 => {}
                        1 => {
                            let p = pos % (8 * l);
                            b[p / 8] ^= 1 << (p % 8);
                        }
                        2 => {
                            // add the modulus when representable on l bytes
                            let y = &x + &q2;
                            if y.bits() as usize <= 8 * l {
                                b = pf::to_le(&y, l);
                            }
                        }
                        3 => {
                            b.insert(pos % (l + 1), val);
                        }
                        _ => {
                            b.remove(pos % l);
                        }
                    }
                    b
                })
                .boxed()
        }
        "multiblock_words" => {
            // multi-block inputs built from 64-bit (or 32-bit) words taken from boundary sets: the folds of decode_reduce then
            // produce carries that run through whole limbs (a fold that overflows 2^256 with a low limb close to 2^64, ...)
            let word = |w: usize| {
                prop_oneof![
                    3 => Just(vec![0u8; w]),
                    3 => Just(vec![0xFFu8; w]),
                    1 => (0u8..8).prop_map(move |c| { let mut v = vec![0xFFu8; w]; v[0] = 0xFF - c; v }),
                    1 => (0u8..8).prop_map(move |c| { let mut v = vec![0u8; w]; v[0] = c; v }),
                    1 => Just({ let mut v = vec![0u8; w]; v[w - 1] = 0x80; v }),
                    1 => Just({ let mut v = vec![0xFFu8; w]; v[w - 1] = 0x7F; v }),
                    2 => prop::collection::vec(any::<u8>(), w),
                ]
            };
            (prop::sample::select(vec![8usize, 8, 8, 4]), 1usize..(4 * l + 16), any::<bool>())
                .prop_flat_map(move |(w, n, from_top)| {
                    prop::collection::vec(word(w), (n + w - 1) / w).prop_map(move |ws| {
                        let mut b: Vec<u8> = ws.concat();
                        if from_top { b.drain(..b.len() - n); } else { b.truncate(n); }
                        b
                    })
                })
                .boxed()
        }
        _ => {
            // multi-block inputs for decode_reduce: boundary-filled blocks
            (1usize..5, prop::sample::select(vec![0u8, 0xFF, 0x80, 0x01]), prop::collection::vec(any::<u8>(), 0..40), any::<bool>())
                .prop_map(move |(blocks, fill, tail, fill_tail)| {
                    let mut b = vec![fill; blocks * l];
                    if fill_tail {
                        b.extend(std::iter::repeat(0xFFu8).take(tail.len()));
                    } else {
                        b.extend(tail);
                    }
                    b
                })
                .boxed()
        }
    }
}

fn check_t<T: PF>(case: &Case) -> Outcome {
    let mut acc = Acc::new();
    let q = T::modulus();
    let l = T::enc_len();
    match case {
        Case::Dec { b, form, .. } => {
            let x = pf::from_le(b);
            let valid = b.len() == l && x < q;
            let near = {
                let d = if x > q { &x - &q } else { &q - &x };
                d <= BigUint::from(2u32)
            };
            acc.nt(near || b.len() != l || (b.len() == l && x >= q) || b.len() > l);
            if near {
                acc.tag("within2_of_modulus");
            }
            if b.len() != l {
                acc.tag("wrong_length");
            }
            if valid {
                acc.tag("strict_accept");
            }
            // strict decoders
            let r = guard(|| {
                let (v, s) = T::decode_ct(b, *form);
                (T::encode(v), s, T::iszero(v))
            });
            let exp_bytes = if valid { b.clone() } else { vec![0u8; l] };
            let exp_s = if valid { 0xFFFFFFFFu32 } else { 0 };
            acc.check(
                matches!(&r, Ok((e, s, _)) if *e == exp_bytes && *s == exp_s),
                || format!("C05:{}:decode_ct", T::NAME),
                || format!("decode_ct({}) -> {:?}, expected ({}, {:08x})", hex(b), r.as_ref().map(|(e, s, _)| (hex(e), format!("{s:08x}"))), hex(&exp_bytes), exp_s),
            );
            let r = guard(|| T::decode(b).map(T::encode));
            acc.check(
                matches!(&r, Ok(o) if o.as_ref() == if valid { Some(b) } else { None }),
                || format!("C05:{}:decode", T::NAME),
                || format!("decode({}) -> {:?}, expected valid={}", hex(b), r.as_ref().map(|o| o.as_ref().map(|e| hex(e))), valid),
            );
            if T::HAS_DECODE32 {
                let valid32 = b.len() == 32 && x < q;
                let r = guard(|| {
                    let (v, s) = T::decode32(b);
                    (T::encode(v), s)
                });
                let exp = if valid32 { pf::to_le(&x, l) } else { vec![0u8; l] };
                acc.check(
                    matches!(&r, Ok((e, s)) if *e == exp && *s == if valid32 { 0xFFFFFFFF } else { 0 }),
                    || format!("C05:{}:decode32", T::NAME),
                    || format!("decode32({}) -> {:?}, expected valid={}", hex(b), r.as_ref().map(|(e, s)| (hex(e), format!("{s:08x}"))), valid32),
                );
            }
            // reducing decoder: any length
            let r = guard(|| T::encode(T::decode_reduce(b, *form)));
            let exp = pf::to_le(&(&x % &q), l);
            acc.check(
                r.as_ref().ok() == Some(&exp),
                || format!("C05:{}:decode_reduce", T::NAME),
                || format!("decode_reduce({}) -> {:?}, expected {}", hex(b), r.as_ref().map(|e| hex(e)), hex(&exp)),
            );
            if b.len() > l {
                acc.tag("multi_block_reduce");
            }
        }
        Case::Enc { v, .. } => {
            let x: T = build_fv(v);
            let iv = int_of_fv(v, &q);
            acc.nt(!v.chain.is_empty() || gen::src_is_raw_big(&v.src, &q));
            let e = guard(|| T::encode(x));
            let exp = pf::to_le(&iv, l);
            acc.check(e.as_ref().ok() == Some(&exp), || format!("C05:{}:encode", T::NAME), || format!("encode -> {:?}, expected {}", e.as_ref().map(|b| hex(b)), hex(&exp)));
            if let Ok(e) = e {
                // decode(encode(x)) == x, with all-ones status
                let r = guard(|| {
                    let (y, s) = T::decode_ct(&e, 0);
                    (T::equals(x, y), s, T::encode(y))
                });
                acc.check(
                    matches!(&r, Ok((eq, s, e2)) if *eq == 0xFFFFFFFF && *s == 0xFFFFFFFF && *e2 == e),
                    || format!("C05:{}:roundtrip", T::NAME),
                    || format!("decode_ct(encode(x)) -> {:?}", r.as_ref().map(|(a, b, c)| (format!("{a:08x}"), format!("{b:08x}"), hex(c)))),
                );
            }
        }
        Case::Bin { .. } => unreachable!(),
    }
    acc.done()
}

fn check_bin(b: &[u8], form: u8) -> Outcome {
    let mut acc = Acc::new();
    // GFb254: 32 bytes, bit 127 of each half clear
    let valid = b.len() == 32 && b[15] & 0x80 == 0 && b[31] & 0x80 == 0;
    acc.nt(b.len() != 32 || !valid || b[15] & 0x40 != 0);
    let r = guard(|| {
        let (v, s) = if form & 1 == 0 { GFb254::decode_ct(b) } else { let mut x = GFb254::ONE; let s = x.set_decode_ct(b); (x, s) };
        (v.encode().to_vec(), s)
    });
    let exp = if valid { b.to_vec() } else { vec![0u8; 32] };
    acc.check(
        matches!(&r, Ok((e, s)) if *e == exp && *s == if valid { 0xFFFFFFFF } else { 0 }),
        || "C05:GFb254:decode_ct".into(),
        || format!("GFb254::decode_ct({}) -> {:?}", hex(b), r.as_ref().map(|(e, s)| (hex(e), format!("{s:08x}")))),
    );
    let r = guard(|| GFb254::decode(b).map(|v| v.encode().to_vec()));
    acc.check(matches!(&r, Ok(o) if o.is_some() == valid && (!valid || o.as_deref() == Some(b))), || "C05:GFb254:decode".into(), || format!("GFb254::decode({}) -> {:?}", hex(b), r));
    // GFb127 on the first 16 bytes (or the whole string when its length is not 32)
    let h: &[u8] = if b.len() == 32 { &b[..16] } else { b };
    let valid = h.len() == 16 && h[15] & 0x80 == 0;
    let r = guard(|| {
        let (v, s) = if form & 2 == 0 { GFb127::decode_ct(h) } else { let mut x = GFb127::ONE; let s = x.set_decode_ct(h); (x, s) };
        (v.encode().to_vec(), s)
    });
    let exp = if valid { h.to_vec() } else { vec![0u8; 16] };
    acc.check(
        matches!(&r, Ok((e, s)) if *e == exp && *s == if valid { 0xFFFFFFFF } else { 0 }),
        || "C05:GFb127:decode_ct".into(),
        || format!("GFb127::decode_ct({}) -> {:?}", hex(h), r.as_ref().map(|(e, s)| (hex(e), format!("{s:08x}")))),
    );
    let r = guard(|| GFb127::decode(h).map(|v| v.encode().to_vec()));
    acc.check(matches!(&r, Ok(o) if o.is_some() == valid && (!valid || o.as_deref() == Some(h))), || "C05:GFb127:decode".into(), || format!("GFb127::decode({}) -> {:?}", hex(h), r));
    acc.done()
}

impl C05 {
    pub fn new() -> Self {
        let infos = all_infos();
        let mut table: Vec<fn(&Case) -> Outcome> = Vec::new();
        macro_rules! push {
            ($t:ty) => {
                table.push(check_t::<$t> as fn(&Case) -> Outcome);
            };
        }
        crate::for_all_pf!(push);
        let mut classes = Vec::new();
        for (ti, info) in infos.iter().enumerate() {
            for (bc, n) in BYTE_CLASSES.iter().enumerate() {
                classes.push((cls(leak(format!("{}/dec/{}", info.name, n)), 2500, 400_000), Kind::Dec(ti, bc)));
            }
            classes.push((cls(leak(format!("{}/enc", info.name)), 3000, 400_000), Kind::Enc(ti)));
        }
        for (bc, n) in BYTE_CLASSES.iter().enumerate() {
            classes.push((cls(leak(format!("GFb/dec/{}", n)), 5000, 400_000), Kind::Bin(bc)));
        }
        C05 { infos, table, classes }
    }
}

impl C05 {
    pub fn new_cached() -> &'static C05 {
        static C: std::sync::OnceLock<C05> = std::sync::OnceLock::new();
        C.get_or_init(C05::new)
    }
    pub fn ntypes(&self) -> usize {
        self.infos.len()
    }
    pub fn type_name(&self, i: usize) -> &'static str {
        self.infos[i].name
    }
}

impl Property for C05 {
    type Case = Case;
    fn id(&self) -> &'static str {
        "C05"
    }
    fn rule(&self) -> String {
        "Dec cases: a byte string (integers within 3 of 0/q/2q/2^k, wrong lengths 0..4L+3, valid encodings with one mutation, uniform, multi-block boundary fills) is given to decode_ct/set_decode_ct/decode/decode32/decode_reduce of one type; the model says accept iff length == ENC_LEN (32 for decode32) and integer < q, value = integer (mod q for the reducing decoder), failure = zero + status 0. Enc cases: encode(x) of a constructed value must be the fixed-length little-endian canonical integer and decode back to x with status 0xFFFFFFFF. Non-trivial: value within 2 of the modulus, length != ENC_LEN, non-canonical integer, multi-block reduce, or (Enc) a non-canonical construction. distinct = distinct case hash.".into()
    }
    fn classes(&self) -> Vec<ClassSpec> {
        self.classes.iter().map(|c| c.0.clone()).collect()
    }
    fn strategy(&self, class: usize) -> BoxedStrategy<Case> {
        match self.classes[class].1.clone() {
            Kind::Dec(ty, bc) => {
                let info = &self.infos[ty];
                let name = info.name.to_string();
                (bytes_strategy(&info.modulus, info.enc_len, bc), any::<u8>()).prop_map(move |(b, form)| Case::Dec { ty: ty as u16, tyname: name.clone(), b, form }).boxed()
            }
            Kind::Enc(ty) => {
                let info = &self.infos[ty];
                let name = info.name.to_string();
                gen::any_fv(&info.modulus, info.nlimbs, info.mq_hint).prop_map(move |v| Case::Enc { ty: ty as u16, tyname: name.clone(), v }).boxed()
            }
            Kind::Bin(bc) => {
                let q = (BigUint::one() << 127) + (BigUint::one() << 255);
                (
                    prop_oneof![
                        2 => bytes_strategy(&q, 32, bc),
                        1 => bytes_strategy(&(BigUint::one() << 127), 16, bc),
                        1 => (prop::collection::vec(any::<u8>(), 32), any::<u8>()).prop_map(|(mut b, m)| { b[15] = (b[15] & 0x7F) | ((m & 1) << 7); b[31] = (b[31] & 0x7F) | ((m & 2) << 6); b }),
                    ],
                    any::<u8>(),
                )
                    .prop_map(|(b, form)| Case::Bin { b, form })
                    .boxed()
            }
        }
    }
    fn check(&self, case: &Case) -> Outcome {
        match case {
            Case::Bin { b, form } => check_bin(b, *form),
            Case::Dec { ty, tyname, .. } | Case::Enc { ty, tyname, .. } => {
                let mut i = *ty as usize;
                if i >= self.infos.len() || self.infos[i].name != tyname {
                    match self.infos.iter().position(|x| x.name == tyname) {
                        Some(j) => i = j,
                        None => return Outcome::pass(false),
                    }
                }
                (self.table[i])(case)
            }
        }
    }
}
