//! C15 - FROST: any qualifying signer set signs validly; bad shares are rejected.

use crate::engine::*;
use crate::props::c09::TapeRng;
use proptest::prelude::*;
use refmodel::schemes::EdVariant;
use serde::{Deserialize, Serialize};

#[derive(Clone, Debug, Hash, Serialize, Deserialize)]
pub struct Case {
    pub suite: u8,
    pub t: u16,
    pub n: u16,
    pub tape: Vec<u8>,
    /// arrival order of commitments at the coordinator: signer indices (mod n), may contain duplicates
    pub arrivals: Vec<u16>,
    pub msg: Vec<u8>,
    /// 0 none, 1 share sk, 2 signature share z, 3 commitment point in the list, 4 aggregate signature, 5 message,
    /// 6 wire byte flip in a share, 7 wire flip in a commitment list, 8 share identifier, 9 group key in a share
    pub corruption: u8,
    pub pos: u16,
    pub val: u8,
}

pub const SUITES: [&str; 5] = ["ed25519", "ristretto255", "ed448", "p256", "secp256k1"];

type Fails = Vec<(String, String)>;

macro_rules! req {
    ($fails:ident, $evals:ident, $name:ident, $cond:expr, $sig:expr, $($msg:tt)*) => {{
        $evals += 1;
        if !($cond) && $fails.is_empty() {
            $fails.push((format!("C15:{}:{}", $name, $sig), format!($($msg)*)));
        }
    }};
}

macro_rules! frost_suite {
    ($fname:ident, $m:ident, $label:expr, $ext:expr) => {
        fn $fname(c: &Case) -> (Fails, u64, Vec<&'static str>) {
            use crrl::frost::$m::*;
            let name = $label;
            let mut fails: Fails = Vec::new();
            let mut evals = 0u64;
            let mut tags: Vec<&'static str> = Vec::new();
            let t = c.t.max(2) as usize;
            let n = (c.n as usize).max(t);
            let mut rng = TapeRng { tape: c.tape.clone(), pos: 0 };
            let group_sk = GroupPrivateKey::generate(&mut rng);
            let group_pk = group_sk.get_public_key();
            let (shares, vss) = KeySplitter::trusted_split(&mut rng, group_sk, t, n);
            req!(fails, evals, name, shares.len() == n && vss.len() == t, "split_sizes", "trusted_split returned {} shares and {} VSS elements for t={} n={}", shares.len(), vss.len(), t, n);
            // wire formats: group keys
            req!(fails, evals, name, GroupPrivateKey::decode(&group_sk.encode()).map(|k| k.encode()) == Some(group_sk.encode()), "wire:group_private_key", "group private key does not round-trip");
            req!(fails, evals, name, GroupPublicKey::decode(&group_pk.encode()).map(|k| k.encode()) == Some(group_pk.encode()), "wire:group_public_key", "group public key does not round-trip");
            let enc_vss = VSSElement::encode_list(&vss);
            let vss2 = VSSElement::decode_list(&enc_vss);
            req!(fails, evals, name, vss2.as_ref().map(|v| VSSElement::encode_list(v)) == Some(enc_vss.clone()), "wire:vss", "VSS commitment does not round-trip");
            let vss = vss2.unwrap_or(vss);
            // shares verify; signer public keys agree with derive_group_info
            let (dpk, dgpk) = KeySplitter::derive_group_info(n, vss.clone());
            req!(fails, evals, name, dgpk.encode() == group_pk.encode(), "derive_group_info:group_key", "derived group key differs");
            let check_every = if n > 40 { n / 20 } else { 1 };
            for (i, s) in shares.iter().enumerate() {
                if i % check_every != 0 && i != n - 1 { continue; }
                req!(fails, evals, name, s.verify_split(&vss), "verify_split", "share {} fails verify_split", i + 1);
                let e = s.encode();
                req!(fails, evals, name, SignerPrivateKeyShare::decode(&e).map(|x| x.encode()) == Some(e), "wire:share", "share {} does not round-trip", i + 1);
                let pk = s.get_public_key();
                req!(fails, evals, name, SignerPublicKey::decode(&pk.encode()).map(|x| x.encode()) == Some(pk.encode()), "wire:signer_public_key", "signer public key {} does not round-trip", i + 1);
                req!(fails, evals, name, dpk[i].encode() == pk.encode(), "derive_group_info:signer_key", "derived public key {} differs from the share's", i + 1);
            }
            let signer_pks: Vec<SignerPublicKey> = shares.iter().map(|s| s.get_public_key()).collect();

            // round 1: commitments in arrival order (duplicates re-send the same commitment)
            let mut nonces: Vec<Option<(Nonce, Commitment)>> = vec![None; n];
            let mut offered: Vec<Commitment> = Vec::new();
            let mut distinct: Vec<usize> = Vec::new();
            for a in &c.arrivals {
                let i = (*a as usize) % n;
                if nonces[i].is_none() {
                    nonces[i] = Some(shares[i].commit(&mut rng));
                    distinct.push(i);
                }
                let cm = nonces[i].unwrap().1;
                req!(fails, evals, name, Commitment::decode(&cm.encode()).map(|x| x.encode()) == Some(cm.encode()), "wire:commitment", "commitment does not round-trip");
                let nn = nonces[i].unwrap().0;
                req!(fails, evals, name, Nonce::decode(&nn.encode()).map(|x| x.encode()) == Some(nn.encode()), "wire:nonce", "nonce does not round-trip");
                offered.push(cm);
            }
            // make sure at least t distinct signers arrive (append the missing ones at the end)
            let mut i = 0;
            while distinct.len() < t {
                if nonces[i].is_none() {
                    nonces[i] = Some(shares[i].commit(&mut rng));
                    distinct.push(i);
                    offered.push(nonces[i].unwrap().1);
                }
                i += 1;
            }
            if offered.len() > distinct.len() { tags.push("duplicate_commitments_offered"); }
            let coord = match Coordinator::new(t, group_pk) {
                Some(x) => x,
                None => { req!(fails, evals, name, false, "coordinator_new", "Coordinator::new({}) returned None", t); return (fails, evals, tags); }
            };
            req!(fails, evals, name, Coordinator::new(1, group_pk).is_none() && Coordinator::new(0, group_pk).is_none(), "coordinator_threshold", "Coordinator::new accepted a threshold below 2");
            let chosen = match coord.choose(&offered) {
                Some(x) => x,
                None => { req!(fails, evals, name, false, "choose:none", "choose() returned None with {} distinct signers for t={}", distinct.len(), t); return (fails, evals, tags); }
            };
            // t distinct, sorted, drawn from the offered set
            let enc_offered: Vec<Vec<u8>> = offered.iter().map(|x| x.encode().to_vec()).collect();
            // identifiers are small integers; their scalar encoding is little- or big-endian depending on the suite
            let idents: Vec<num_bigint::BigUint> = chosen.iter().map(|x| { let e = x.encode()[..Commitment::ENC_LEN - 2 * GroupPublicKey::ENC_LEN].to_vec(); refmodel::pf::from_le(&e).min(refmodel::pf::from_be(&e)) }).collect();
            let sorted = idents.windows(2).all(|w| w[0] < w[1]);
            req!(fails, evals, name, chosen.len() == t && sorted && chosen.iter().all(|x| enc_offered.contains(&x.encode().to_vec())), "choose:selection", "choose() returned {} commitments (t={}), sorted+distinct={}", chosen.len(), t, sorted);
            let enc_list = Commitment::encode_list(&chosen);
            req!(fails, evals, name, Commitment::decode_list(&enc_list).map(|l| Commitment::encode_list(&l)) == Some(enc_list.clone()), "wire:commitment_list", "commitment list does not round-trip");
            // disorder / repetition that does not involve the first entry
            if chosen.len() >= 3 {
                let l = chosen.len();
                let mut sw = chosen.clone();
                sw.swap(l - 2, l - 1);
                req!(fails, evals, name, Commitment::decode_list(&Commitment::encode_list(&sw)).is_none(), "wire:list_unsorted_tail", "decode_list accepted a list whose last two entries are swapped");
                let mut sw = chosen.clone();
                sw.swap(1, 2);
                req!(fails, evals, name, Commitment::decode_list(&Commitment::encode_list(&sw)).is_none(), "wire:list_unsorted_middle", "decode_list accepted a list whose entries 2 and 3 are swapped");
            }
            if chosen.len() >= 2 {
                let mut dup = chosen.clone();
                let last = *dup.last().unwrap();
                dup.push(last);
                req!(fails, evals, name, Commitment::decode_list(&Commitment::encode_list(&dup)).is_none(), "wire:list_duplicate_tail", "decode_list accepted a list whose last entry is repeated");
                let mut dup = chosen.clone();
                dup.insert(0, chosen[0]);
                req!(fails, evals, name, Commitment::decode_list(&Commitment::encode_list(&dup)).is_none(), "wire:list_duplicate_head", "decode_list accepted a list whose first entry is repeated");
            }
            // fewer than t distinct commitments must not be enough
            if distinct.len() >= t && t >= 2 {
                let few: Vec<Commitment> = chosen[..t - 1].to_vec();
                req!(fails, evals, name, coord.choose(&few).is_none(), "choose:below_threshold", "choose() accepted {} commitments for t={}", t - 1, t);
            }

            // round 2
            let mut sig_shares: Vec<SignatureShare> = Vec::new();
            let chosen_enc: Vec<Vec<u8>> = chosen.iter().map(|x| x.encode().to_vec()).collect();
            let mut signer_of: Vec<usize> = Vec::new();
            for (i, nc) in nonces.iter().enumerate() {
                let Some((nonce, comm)) = nc else { continue };
                if !chosen_enc.contains(&comm.encode().to_vec()) {
                    // a signer that was not selected must refuse
                    req!(fails, evals, name, shares[i].sign(*nonce, *comm, &c.msg, &chosen).is_none(), "sign:not_selected", "signer {} produced a share although it is not in the list", i + 1);
                    continue;
                }
                match shares[i].sign(*nonce, *comm, &c.msg, &chosen) {
                    None => { req!(fails, evals, name, false, "sign:none", "selected signer {} returned None", i + 1); }
                    Some(ss) => {
                        req!(fails, evals, name, signer_pks[i].verify_signature_share(ss, &chosen, group_pk, &c.msg), "verify_signature_share", "honest share of signer {} rejected", i + 1);
                        req!(fails, evals, name, SignatureShare::decode(&ss.encode()).map(|x| x.encode()) == Some(ss.encode()), "wire:signature_share", "signature share does not round-trip");
                        sig_shares.push(ss);
                        signer_of.push(i);
                    }
                }
            }
            if sig_shares.len() != t { return (fails, evals, tags); }
            // arrival order of shares: rotated, with a duplicate
            let mut shuffled = sig_shares.clone();
            shuffled.rotate_left((c.pos as usize) % t);
            shuffled.push(sig_shares[0]);
            let mut pks_shuffled = signer_pks.clone();
            pks_shuffled.rotate_left((c.val as usize) % n);
            let sig = match coord.assemble_signature(&shuffled, &chosen, &pks_shuffled, &c.msg) {
                Some(s) => s,
                None => { req!(fails, evals, name, false, "assemble:none", "assemble_signature returned None on honest shares"); return (fails, evals, tags); }
            };
            req!(fails, evals, name, group_pk.verify(sig, &c.msg), "group_verify", "aggregate signature rejected by the group public key");
            let esig = sig.encode();
            req!(fails, evals, name, group_pk.verify_esig(&esig, &c.msg), "group_verify_esig", "encoded aggregate signature rejected");
            req!(fails, evals, name, Signature::decode(&esig).map(|x| x.encode()) == Some(esig), "wire:signature", "signature does not round-trip");
            if $ext {
                let ok = ext_verify($label, &group_pk.encode(), &esig, &c.msg);
                req!(fails, evals, name, ok.0, "rfc8032_verify:crrl", "aggregate signature rejected by the plain crrl EdDSA verifier");
                req!(fails, evals, name, ok.1, "rfc8032_verify:reference", "aggregate signature rejected by the reference RFC 8032 verifier");
            }
            // single-signer signatures
            let s1 = group_sk.sign_seeded(&c.tape[..c.tape.len().min(5)], &c.msg);
            req!(fails, evals, name, group_pk.verify(s1, &c.msg), "single_signer", "sign_seeded signature rejected");
            let s2 = group_sk.sign(&mut rng, &c.msg);
            req!(fails, evals, name, group_pk.verify(s2, &c.msg), "single_signer", "sign signature rejected");

            // single-field corruptions
            let flip = |b: &mut [u8], lo: usize, hi: usize| { let p = lo * 8 + (c.pos as usize) % ((hi - lo) * 8); b[p / 8] ^= 1 << (p % 8); };
            const NS_: usize = GroupPrivateKey::ENC_LEN;
            const NE_: usize = GroupPublicKey::ENC_LEN;
            // Edwards suites, 1 corrupted history in 4: an element of the VSS commitment or a nonce commitment is shifted by a
            // low-order point (a change no bit-flip class produces): the decoder must refuse it or every verification must
            let mut corruption = c.corruption % 10;
            if $ext && c.corruption != 0 && c.val % 4 == 0 {
                corruption = 10 + (c.val / 4) % 2;
            }
            match corruption {
                0 => {}
                10 => {
                    tags.push("torsion_shift_vss_element");
                    let mut e = VSSElement::encode_list(&vss);
                    let j = if vss.len() > 1 { 1 + (c.pos as usize) % (vss.len() - 1) } else { 0 };
                    if let Some(sh) = torsion_shift(name, &e[j * NE_..(j + 1) * NE_], c.val / 8) {
                        e[j * NE_..(j + 1) * NE_].copy_from_slice(&sh);
                        if let Some(bad) = VSSElement::decode_list(&e) {
                            for (i, s) in shares.iter().enumerate().take(64) {
                                req!(fails, evals, name, !s.verify_split(&bad), "corruption:vss_torsion_accepted", "share {} passes verify_split against a commitment whose element {} was shifted by a low-order point", i + 1, j);
                            }
                        }
                    }
                }
                11 => {
                    tags.push("torsion_shift_commitment");
                    let mut e = enc_list.clone();
                    // a commitment is identifier || hiding point || binding point
                    let off = NS_ + NE_ * ((c.pos as usize) % 2);
                    if let Some(sh) = torsion_shift(name, &e[off..off + NE_], c.val / 8) {
                        e[off..off + NE_].copy_from_slice(&sh);
                        if let Some(list) = Commitment::decode_list(&e) {
                            req!(fails, evals, name, !signer_pks[signer_of[0]].verify_signature_share(sig_shares[0], &list, group_pk, &c.msg), "corruption:commitment_torsion_accepted", "signature share verifies against a list whose first commitment was shifted by a low-order point");
                        }
                    }
                }
                1 => {
                    tags.push("corrupt_share_sk");
                    let mut e = shares[signer_of[0]].encode();
                    flip(&mut e, NS_, 2 * NS_);
                    if let Some(bad) = SignerPrivateKeyShare::decode(&e) {
                        req!(fails, evals, name, !bad.verify_split(&vss), "corruption:share_sk_accepted", "share with an altered secret passes verify_split");
                    }
                }
                8 => {
                    tags.push("corrupt_share_ident");
                    let mut e = shares[signer_of[0]].encode();
                    flip(&mut e, 0, NS_);
                    if let Some(bad) = SignerPrivateKeyShare::decode(&e) {
                        req!(fails, evals, name, !bad.verify_split(&vss), "corruption:share_ident_accepted", "share with an altered identifier passes verify_split");
                    }
                }
                9 => {
                    tags.push("corrupt_share_group_key");
                    let mut e = shares[signer_of[0]].encode();
                    // replace the group key by another valid point (a signer public key)
                    let other = signer_pks[(signer_of[0] + 1) % n].encode();
                    e[2 * NS_..].copy_from_slice(&other[NS_..]);
                    // vss_verify only covers (identifier, secret); a share carrying a foreign group key must fail at the
                    // next verification: its signature share is rejected by the coordinator
                    if let Some(bad) = SignerPrivateKeyShare::decode(&e) {
                        let i0 = signer_of[0];
                        let (nonce, comm) = nonces[i0].unwrap();
                        if let Some(ss) = bad.sign(nonce, comm, &c.msg, &chosen) {
                            req!(fails, evals, name, !signer_pks[i0].verify_signature_share(ss, &chosen, group_pk, &c.msg), "corruption:share_group_key_undetected", "signature share computed under a foreign group key is accepted");
                        }
                    }
                }
                2 => {
                    tags.push("corrupt_signature_share");
                    let mut e = sig_shares[0].encode();
                    flip(&mut e, NS_, 2 * NS_);
                    if let Some(bad) = SignatureShare::decode(&e) {
                        req!(fails, evals, name, !signer_pks[signer_of[0]].verify_signature_share(bad, &chosen, group_pk, &c.msg), "corruption:signature_share_accepted", "altered signature share accepted");
                        let mut v = sig_shares.clone();
                        v[0] = bad;
                        req!(fails, evals, name, coord.assemble_signature(&v, &chosen, &signer_pks, &c.msg).is_none(), "corruption:assemble_accepts_bad_share", "assemble_signature succeeded with an altered share");
                    }
                }
                3 => {
                    tags.push("corrupt_commitment");
                    // replace one commitment point of the first chosen signer by another signer's
                    let mut list = chosen.clone();
                    let mut e = list[0].encode();
                    let o = list[1].encode();
                    let off = if c.val % 2 == 0 { NS_ } else { NS_ + NE_ };
                    e[off..off + NE_].copy_from_slice(&o[off..off + NE_]);
                    if let Some(bad) = Commitment::decode(&e) {
                        list[0] = bad;
                        let i0 = signer_of[0];
                        let (nonce, comm) = nonces[i0].unwrap();
                        req!(fails, evals, name, shares[i0].sign(nonce, comm, &c.msg, &list).is_none(), "corruption:sign_with_foreign_commitment", "signer accepted a list carrying a different commitment under its identifier");
                        req!(fails, evals, name, !signer_pks[i0].verify_signature_share(sig_shares[0], &list, group_pk, &c.msg), "corruption:share_valid_for_other_list", "signature share verifies against an altered commitment list");
                    }
                }
                4 => {
                    tags.push("corrupt_aggregate");
                    let mut e = esig;
                    let l = e.len();
                    flip(&mut e, 0, l);
                    req!(fails, evals, name, !group_pk.verify_esig(&e, &c.msg), "corruption:aggregate_accepted", "altered aggregate signature accepted");
                }
                5 => {
                    tags.push("corrupt_message");
                    let mut m2 = c.msg.clone();
                    m2.push(c.val);
                    req!(fails, evals, name, !group_pk.verify(sig, &m2), "corruption:other_message_accepted", "signature accepted for another message");
                    req!(fails, evals, name, !signer_pks[signer_of[0]].verify_signature_share(sig_shares[0], &chosen, group_pk, &m2), "corruption:share_other_message", "signature share accepted for another message");
                }
                6 => {
                    tags.push("wire_flip_share");
                    let orig = shares[signer_of[0]].encode();
                    let mut e = orig;
                    let l = e.len();
                    flip(&mut e, 0, l);
                    if let Some(x) = SignerPrivateKeyShare::decode(&e) {
                        req!(fails, evals, name, x.encode() == e, "wire:share_noncanonical", "decode accepted bytes that do not re-encode to themselves");
                    }
                }
                _ => {
                    tags.push("wire_flip_commitment_list");
                    let mut e = enc_list.clone();
                    let l = e.len();
                    flip(&mut e, 0, l);
                    if let Some(x) = Commitment::decode_list(&e) {
                        req!(fails, evals, name, Commitment::encode_list(&x) == e, "wire:list_noncanonical", "decode_list accepted bytes that do not re-encode to themselves");
                    }
                    // truncated / extended lists are rejected
                    let mut e2 = enc_list.clone();
                    e2.push(c.val);
                    req!(fails, evals, name, Commitment::decode_list(&e2).is_none(), "wire:list_trailing", "decode_list accepted trailing garbage");
                    e2.truncate(enc_list.len() - 1);
                    req!(fails, evals, name, Commitment::decode_list(&e2).is_none(), "wire:list_truncated", "decode_list accepted a truncated list");
                    // unsorted list is rejected
                    let mut rev = chosen.clone();
                    rev.reverse();
                    req!(fails, evals, name, Commitment::decode_list(&Commitment::encode_list(&rev)).is_none(), "wire:list_unsorted", "decode_list accepted an unsorted list");
                }
            }
            (fails, evals, tags)
        }
    };
}

/// Edwards suites: the encoding of (decoded point + a low-order point); None for the other suites or invalid input
fn torsion_shift(label: &str, enc: &[u8], which: u8) -> Option<Vec<u8>> {
    let g = match label { "ed25519" => 0usize, "ed448" => 1usize, _ => return None };
    let r = crate::points::rg(g);
    let p = r.decode(enc)?;
    let tors: Vec<_> = crate::points::refs().torsion[g].iter().filter(|t| !r.is_neutral(t)).cloned().collect();
    let t = &tors[which as usize % tors.len()];
    Some(r.encode(&r.add(&p, t)))
}

/// (crrl plain verifier, reference verifier) for the Ed25519 / Ed448 suites
fn ext_verify(label: &str, pk: &[u8], sig: &[u8], msg: &[u8]) -> (bool, bool) {
    if label == "ed25519" {
        let a = crrl::ed25519::PublicKey::decode(pk).map(|k| k.verify_raw(sig, msg)).unwrap_or(false);
        let b = refmodel::schemes::eddsa25519().verify(pk, sig, EdVariant::Raw, &[], msg).0;
        (a, b)
    } else if label == "ed448" {
        let a = crrl::ed448::PublicKey::decode(pk).map(|k| k.verify_raw(sig, msg)).unwrap_or(false);
        let b = refmodel::schemes::eddsa448().verify(pk, sig, EdVariant::Raw, &[], msg).0;
        (a, b)
    } else {
        (true, true)
    }
}

frost_suite!(run_ed25519, ed25519, "ed25519", true);
frost_suite!(run_ristretto255, ristretto255, "ristretto255", false);
frost_suite!(run_ed448, ed448, "ed448", true);
frost_suite!(run_p256, p256, "p256", false);
frost_suite!(run_secp256k1, secp256k1, "secp256k1", false);

pub struct C15;

impl Property for C15 {
    type Case = Case;
    fn id(&self) -> &'static str {
        "C15"
    }
    fn rule(&self) -> String {
        "Each case = one full protocol history: ciphersuite (5), threshold t in 2..6 (thorough: up to 12), group size n in t..12 (thorough: up to 300, plus n = 65535 with t = 2), dealer / signer RNG tape, arrival order of commitments with duplicates, message, one optional single-field corruption. Invariants checked after each step: split sizes, verify_split of every share, derive_group_info agreement, every wire format round-trips, choose returns t distinct sorted commitments from the offered set (and None below the threshold), selected signers produce shares that verify_signature_share accepts, non-selected signers refuse, assemble_signature (shares rotated, duplicated) returns a signature that GroupPublicKey::verify / verify_esig accept and - for Ed25519 / Ed448 - that crrl's plain EdDSA verifier and the reference RFC 8032 verifier accept; single-signer signatures verify; corruption of a share secret / identifier / group key, a signature share, a commitment, the aggregate, the message, or a wire byte is rejected by the corresponding verification. Public verification functions only receive sorted duplicate-free lists (the draft's precondition). Every history is non-trivial. distinct = distinct case hash.".into()
    }
    fn shard_size(&self) -> u64 {
        4
    }
    fn watchdog_secs(&self) -> u64 {
        900
    }
    fn shrink_iters(&self) -> u32 {
        100
    }
    fn classes(&self) -> Vec<ClassSpec> {
        let mut v: Vec<ClassSpec> = SUITES.iter().map(|s| cls(s, 400, 20_000)).collect();
        v.push(cls("large_groups", 40, 400));
        v.push(cls("max_group_65535", 1, 2));
        v
    }
    fn strategy(&self, class: usize) -> BoxedStrategy<Case> {
        let tn: BoxedStrategy<(u16, u16)> = match class {
            // identifiers above 255 (two significant bytes) and above 256*k matter for the ordering of identifiers
            5 => (2u16..13, prop_oneof![1 => 13u16..256, 3 => 256u16..700, 1 => 700u16..3000]).prop_map(|(t, n)| (t, n.max(t))).boxed(),
            6 => Just((2u16, 65535u16)).boxed(),
            _ => (2u16..7).prop_flat_map(|t| (Just(t), t..13)).boxed(),
        };
        let suite: BoxedStrategy<u8> = if class < 5 { Just(class as u8).boxed() } else { (0u8..5).boxed() };
        (suite, tn, prop::collection::vec(any::<u8>(), 8..64), prop::collection::vec(any::<u16>(), 0..16), prop::collection::vec(any::<u8>(), 0..80), prop_oneof![1 => Just(0u8), 3 => 1u8..10], any::<u16>(), any::<u8>())
            .prop_map(|(suite, (t, n), tape, arrivals, msg, corruption, pos, val)| Case { suite, t, n, tape, arrivals, msg, corruption, pos, val })
            .boxed()
    }
    fn check(&self, c: &Case) -> Outcome {
        let mut acc = Acc::new();
        acc.nt(true);
        let r = guard(|| match c.suite % 5 {
            0 => run_ed25519(c),
            1 => run_ristretto255(c),
            2 => run_ed448(c),
            3 => run_p256(c),
            _ => run_secp256k1(c),
        });
        match r {
            Err(sig) => {
                acc.check(false, || format!("C15:{}:{sig}", SUITES[c.suite as usize % 5]), || format!("history panicked: {sig}"));
            }
            Ok((fails, evals, tags)) => {
                for t in tags {
                    acc.tag(t);
                }
                acc.evals = evals;
                if let Some((s, m)) = fails.into_iter().next() {
                    acc.check(false, || s, || m);
                }
            }
        }
        acc.done()
    }
}
