//! C04 - scalar multiplication returns [n]P for every scalar and point; generator fast path; table sweep.

use crate::engine::*;
use crate::ftypes::leak;
use crate::gen::SCALAR_CLASSES;
use crate::points::*;
use crate::with_group;
use num_bigint::BigUint;
use num_traits::One;
use proptest::prelude::*;
use refmodel::curves::Pt;
use refmodel::pf;
use serde::{Deserialize, Serialize};
use std::sync::OnceLock;

#[derive(Clone, Debug, Hash, Serialize, Deserialize)]
pub enum Case {
    /// P*k in every operator form, mulgen(k), BASE*k
    Mul { g: u8, p: PV, k: Vec<u8>, form: u8 },
    /// sweep: scalar d*2^s (d = 1..31 selects entry +-|d| of the window at bit s through the signed-digit recoding)
    Sweep { g: u8, d: u8, s: u16 },
}

pub struct C04 {
    classes: Vec<(ClassSpec, usize, usize, usize)>,
}

/// 2^s * B for s = 0..order bits (reference), per group
fn pow2_base(g: usize) -> &'static Vec<Pt> {
    static T: OnceLock<Vec<OnceLock<Vec<Pt>>>> = OnceLock::new();
    let t = T.get_or_init(|| (0..NGROUPS).map(|_| OnceLock::new()).collect());
    t[g].get_or_init(|| {
        let r = rg(g);
        let mut v = Vec::new();
        let mut p = r.base();
        for _ in 0..=r.order().bits() {
            v.push(p.clone());
            p = r.double(&p);
        }
        v
    })
}

impl C04 {
    pub fn new() -> Self {
        let mut classes = Vec::new();
        for g in 0..NGROUPS {
            for (sc, sn) in SCALAR_CLASSES.iter().enumerate() {
                // point classes: 1 = base (also exercises P == generator collisions), 3 = uniform, 4 = special
                for pc in [1usize, 3, 4] {
                    let w = if pc == 3 { 30 } else { 12 };
                    classes.push((cls(leak(format!("{}/{}/{}", GROUP_NAMES[g], sn, PSRC_CLASSES[pc])), w, w * 100), g, sc, pc));
                }
            }
        }
        C04 { classes }
    }
}

fn check_mul<G: Grp>(p: &PV, k: &[u8], form: u8) -> Outcome {
    let mut acc = Acc::new();
    let g = G::G;
    let r = rg(g);
    let name = GROUP_NAMES[g];
    let n = r.order();
    let ki = pf::from_le(k) % &n;
    let ks: G::S = scalar_of::<G>(&ki);
    let pt: G = build_pv(p);
    let rp = ref_pv(g, p);
    let structured = {
        let tz = ki.trailing_zeros().unwrap_or(0);
        ki.bits() < 200 || (&n - &ki).bits() < 200 || tz >= 20 || ki.count_ones() < 40 || (&n - &ki).count_ones() < 40
    };
    acc.nt(structured || !p.chain.is_empty() || !matches!(p.src, PSrc::Enc(_)));
    if structured {
        acc.tag("structured_scalar");
    }
    let exp = r.encode(&r.mul(&ki, &rp));
    for f in [form, form.wrapping_add(1), form.wrapping_add(3)] {
        let got = guard(|| G::mul(pt, &ks, f).encode());
        acc.check(got.as_ref().ok() == Some(&exp), || format!("C04:{name}:mul"), || format!("P*k (form {}) k={:x}: got {:?} expected {}", f % 6, ki, got.as_ref().map(|b| hex(b)), hex(&exp)));
    }
    let expg = r.encode(&r.mul(&ki, &r.base()));
    for f in 0..4u8 {
        let got = guard(|| G::mulgen(&ks, f).encode());
        acc.check(got.as_ref().ok() == Some(&expg), || format!("C04:{name}:mulgen"), || format!("mulgen (form {f}) k={:x}: got {:?} expected {}", ki, got.as_ref().map(|b| hex(b)), hex(&expg)));
    }
    acc.done()
}

fn check_sweep<G: Grp>(d: u8, s: u16) -> Outcome {
    let mut acc = Acc::new();
    let g = G::G;
    let r = rg(g);
    let name = GROUP_NAMES[g];
    let n = r.order();
    let s = (s as u64).min(n.bits());
    let ki = (BigUint::from(d) << s) % &n;
    let ks: G::S = scalar_of::<G>(&ki);
    acc.nt(true);
    // reference: d * (2^s B) when d*2^s < n, otherwise plain double-and-add on the reduced integer
    let exp_pt = if (BigUint::from(d) << s) < n { r.mul(&BigUint::from(d), &pow2_base(g)[s as usize]) } else { r.mul(&ki, &r.base()) };
    let exp = r.encode(&exp_pt);
    let got = guard(|| G::mulgen(&ks, 0).encode());
    acc.check(got.as_ref().ok() == Some(&exp), || format!("C04:{name}:mulgen_sweep"), || format!("mulgen({d}*2^{s}): got {:?} expected {}", got.as_ref().map(|b| hex(b)), hex(&exp)));
    let got = guard(|| G::mul(G::base(), &ks, 0).encode());
    acc.check(got.as_ref().ok() == Some(&exp), || format!("C04:{name}:mul_sweep"), || format!("BASE*({d}*2^{s}): got {:?} expected {}", got.as_ref().map(|b| hex(b)), hex(&exp)));
    // negated scalar: n - d*2^s
    let kn = pf::neg(&ki, &n);
    let ksn: G::S = scalar_of::<G>(&kn);
    let expn = r.encode(&r.neg(&exp_pt));
    let got = guard(|| G::mulgen(&ksn, 1).encode());
    acc.check(got.as_ref().ok() == Some(&expn), || format!("C04:{name}:mulgen_sweep"), || format!("mulgen(-{d}*2^{s}): got {:?} expected {}", got.as_ref().map(|b| hex(b)), hex(&expn)));
    // the variable-time generator tables: 1*(2B) + v*G and 0*P + v*G
    let two_b = pow2_base(g)[1].clone();
    let one: G::S = scalar_of::<G>(&BigUint::one());
    let zero: G::S = scalar_of::<G>(&BigUint::from(0u32));
    let p2: G = G::double(G::base(), 0);
    let expv = r.encode(&r.add(&two_b, &exp_pt));
    let got = guard(|| G::mul_add_mulgen_vartime(p2, &one, &ks, 0).encode());
    acc.check(got.as_ref().ok() == Some(&expv), || format!("C04:{name}:vartime_gen_sweep"), || format!("1*(2B) + ({d}*2^{s})*G: got {:?} expected {}", got.as_ref().map(|b| hex(b)), hex(&expv)));
    let got = guard(|| G::mul_add_mulgen_vartime(p2, &zero, &ksn, 1).encode());
    acc.check(got.as_ref().ok() == Some(&expn), || format!("C04:{name}:vartime_gen_sweep"), || format!("0*(2B) + (-{d}*2^{s})*G: got {:?} expected {}", got.as_ref().map(|b| hex(b)), hex(&expn)));
    acc.done()
}

impl Property for C04 {
    type Case = Case;
    fn id(&self) -> &'static str {
        "C04"
    }
    fn rule(&self) -> String {
        "Mul cases: group + point value (generator, uniform element, special/chained representative) + scalar from the structured classes (uniform, 0/1/n-1/(n+-1)/2, 2^k+-1 and negations, small and unbalanced fractions a/b, 5-bit digit patterns 15/16/17/31, small); P*k in three operator forms, mulgen(k) in four forms (mulgen, set_mulgen on a neutral receiver, BASE*k, set_mulgen on a receiver that already holds a point) against reference double-and-add on the canonical integer, through encodings. Sweep (exhaustive, deterministic): for every d = 1..31 and every bit position s = 0..bits, the scalars d*2^s and n - d*2^s through mulgen, BASE*k and the variable-time u*P + v*G routine - with 5-bit (and 4-bit) signed-digit recodings this selects every entry +-1..16 of every window of every precomputed generator table. Non-trivial: structured scalar (short, close to n, >= 20 trailing zeros, sparse) or non-generic point; every sweep case. distinct = distinct case hash.".into()
    }
    fn shard_size(&self) -> u64 {
        10
    }
    fn shrink_iters(&self) -> u32 {
        100
    }
    fn classes(&self) -> Vec<ClassSpec> {
        self.classes.iter().map(|c| c.0.clone()).collect()
    }
    fn strategy(&self, class: usize) -> BoxedStrategy<Case> {
        let (_, g, sc, pc) = self.classes[class].clone();
        (pv_strategy(g, pc, false), prop::bool::weighted(0.3).prop_flat_map(move |ch| pv_strategy(g, pc, ch)), gscalar(g, sc), any::<u8>())
            .prop_map(move |(_p0, p, k, form)| Case::Mul { g: g as u8, p, k, form })
            .boxed()
    }
    fn sweep(&self, tier: Tier) -> Vec<(&'static str, Case)> {
        let mut v = Vec::new();
        for g in 0..NGROUPS {
            let bits = rg(g).order().bits() as u16;
            let name = leak(format!("{}/table_sweep", GROUP_NAMES[g]));
            let step = if tier == Tier::Quick { 1 } else { 1 };
            for s in (0..=bits).step_by(step) {
                for d in 1..=31u8 {
                    v.push((name, Case::Sweep { g: g as u8, d, s }));
                }
            }
        }
        v
    }
    fn check(&self, c: &Case) -> Outcome {
        match c {
            Case::Mul { g, p, k, form } => with_group!(*g as usize, check_mul(p, k, *form)),
            Case::Sweep { g, d, s } => with_group!(*g as usize, check_sweep(*d, *s)),
        }
    }
}
