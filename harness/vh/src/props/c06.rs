//! C06 - group-element encodings are canonical, injective and strictly decoded; byte-to-group maps.

use crate::engine::*;
use crate::ftypes::leak;
use crate::points::*;
use crate::with_group;
use num_bigint::BigUint;
use num_traits::{One, Zero};
use proptest::prelude::*;
use refmodel::curves::{Pt, RefGroup};
use refmodel::pf;
use serde::{Deserialize, Serialize};

#[derive(Clone, Debug, Hash, Serialize, Deserialize)]
pub enum Case {
    /// decode arbitrary bytes
    Dec { g: u8, b: Vec<u8>, form: u8 },
    /// two constructions of (possibly) the same element: equals <=> identical encodings; decode(encode) round trip
    Pair { g: u8, a: PV, b: PV, via: PV, mode: u8 },
    /// one_way_map (ristretto255 / decaf448) against the RFC 9496 reference
    Map { g: u8, b: Vec<u8> },
    /// hash_to_curve (jq255e / jq255s / gls254): valid element, deterministic, domain separated
    Hash { g: u8, name: String, data: Vec<u8> },
}

pub struct C06 {
    classes: Vec<(ClassSpec, Kind)>,
}

#[derive(Clone)]
enum Kind {
    Dec(usize, usize),
    Pair(usize, usize),
    Map(usize),
    Hash(usize),
}

pub const DEC_CLASSES: &[&str] = &["valid", "mutated", "boundary_ints", "lengths", "uniform", "format_specific"];

/// field modulus behind the encoding of group g (for boundary integers)
fn enc_modulus(g: usize) -> BigUint {
    match g {
        0 | 7 => refs().ed25519.p.clone(),
        1 | 8 => refs().ed448.p.clone(),
        2 => refs().p256.p.clone(),
        3 => refs().secp256k1.p.clone(),
        4 => (BigUint::one() << 255) - 18651u32,
        5 => (BigUint::one() << 255) - 3957u32,
        _ => BigUint::one() << 127,
    }
}

fn int_to_enc(g: usize, x: &BigUint, prefix: u8) -> Vec<u8> {
    let len = rg(g).enc_len();
    if is_weierstrass(g) {
        let mut v = vec![prefix];
        let mut b = x.to_bytes_be();
        if b.len() > 32 {
            b = b[b.len() - 32..].to_vec();
        }
        v.extend(std::iter::repeat(0u8).take(32 - b.len()));
        v.extend(b);
        v
    } else {
        let mut b = x.to_bytes_le();
        b.resize(len.max(b.len()), 0);
        b.truncate(len);
        b
    }
}

pub fn dec_strategy(g: usize, class: usize) -> BoxedStrategy<Vec<u8>> {
    let len = rg(g).enc_len();
    match DEC_CLASSES[class % DEC_CLASSES.len()] {
        "valid" => {
            if is_weierstrass(g) {
                // compressed, uncompressed and the one-byte infinity
                prop_oneof![
                    3 => enc_strategy(g),
                    3 => enc_strategy(g).prop_map(move |e| { let w = if g == 2 { &refs().p256 } else { &refs().secp256k1 }; w.encode_uncompressed(&rg(g).decode(&e).unwrap()) }),
                    1 => Just(vec![0u8]),
                ]
                .boxed()
            } else {
                prop_oneof![8 => enc_strategy(g), 1 => Just(rg(g).encode(&rg(g).neutral())), 1 => Just(rg(g).encode(&rg(g).base()))].boxed()
            }
        }
        "mutated" => (dec_strategy(g, 0), 0usize..6, any::<usize>(), any::<u8>())
            .prop_map(move |(mut b, m, pos, val)| {
                if b.is_empty() {
                    return b;
                }
                match m {
                    0 => {
                        let p = pos % (8 * b.len());
                        b[p / 8] ^= 1 << (p % 8);
                    }
                    1 => {
                        // flip the sign / parity carrier
                        if is_weierstrass(g) { b[0] ^= 1; } else { let l = b.len() - 1; b[l] ^= 0x80; }
                    }
                    2 => {
                        // add the field modulus to the coordinate when representable
                        let q = enc_modulus(g);
                        if is_weierstrass(g) {
                            let x = pf::from_be(&b[1..33.min(b.len())]) + &q;
                            if x.bits() <= 256 && b.len() >= 33 {
                                let e = pf::to_be(&x, 32);
                                b[1..33].copy_from_slice(&e);
                            }
                        } else if g != 6 {
                            let l = b.len();
                            let top = b[l - 1] & 0x80;
                            let mut c = b.clone();
                            if is_edwards(g) { c[l - 1] &= 0x7F; }
                            let x = pf::from_le(&c) + &q;
                            let lim = if is_edwards(g) { 8 * l - 1 } else { 8 * l };
                            if x.bits() as usize <= lim {
                                b = pf::to_le(&x, l);
                                if is_edwards(g) { b[l - 1] |= top; }
                            }
                        }
                    }
                    3 => b.insert(pos % (b.len() + 1), val),
                    4 => { b.remove(pos % b.len()); }
                    _ => { let p = pos % b.len(); b[p] = val; }
                }
                b
            })
            .boxed(),
        "boundary_ints" => {
            let q = enc_modulus(g);
            (0u32..5, -3i32..=3, prop::sample::select(vec![0u8, 2, 3, 4, 0x80]), any::<bool>())
                .prop_map(move |(k, d, pre, hi)| {
                    let base = match k {
                        0 => q.clone(),
                        1 => BigUint::from(0u32),
                        2 => (BigUint::one() << (q.bits() as usize)) - 1u32,
                        3 => BigUint::one() << ((q.bits() - 1) as usize),
                        _ => &q * 2u32,
                    };
                    let x = if d >= 0 { base + d as u32 } else if base >= BigUint::from((-d) as u32) { base - (-d) as u32 } else { base };
                    let mut e = int_to_enc(g, &x, if pre >= 0x80 { 2 } else { pre });
                    if hi && !is_weierstrass(g) {
                        let l = e.len() - 1;
                        e[l] |= 0x80;
                    }
                    e
                })
                .boxed()
        }
        "lengths" => {
            let lens = vec![0usize, 1, 2, len - 1, len, len + 1, 32, 33, 56, 57, 64, 65, 66, 2 * len, 114];
            (prop::sample::select(lens), any::<bool>(), dec_strategy(g, 0))
                .prop_flat_map(|(n, from_valid, v)| {
                    if from_valid {
                        // a valid encoding truncated / zero-extended to the target length
                        let mut b = v.clone();
                        b.resize(n, 0);
                        Just(b).boxed()
                    } else {
                        prop::collection::vec(any::<u8>(), n).boxed()
                    }
                })
                .boxed()
        }
        "uniform" => {
            if is_weierstrass(g) {
                (prop::sample::select(vec![33usize, 65, 1]), prop::sample::select(vec![0u8, 1, 2, 3, 4, 5, 6, 7, 8, 0xFF]), prop::collection::vec(any::<u8>(), 64))
                    .prop_map(|(n, pre, body)| { let mut v = vec![pre]; v.extend(&body[..n - 1]); v })
                    .boxed()
            } else {
                prop::collection::vec(any::<u8>(), len).boxed()
            }
        }
        _ => match g {
            0 | 1 => {
                // x = 0 with the sign bit, non-canonical y = y + p for small y, low-order points, sign-flipped low order
                let e = if g == 0 { &refs().ed25519 } else { &refs().ed448 };
                let p = e.p.clone();
                let mut v: Vec<Vec<u8>> = Vec::new();
                for t in &refs().torsion[g] {
                    let enc = e.encode(t);
                    let mut f = enc.clone();
                    f[len - 1] ^= 0x80;
                    v.push(enc);
                    v.push(f);
                }
                for y in 0u32..40 {
                    for sign in [0u8, 0x80] {
                        // y + p (non canonical) when it fits, and y itself
                        let yp = BigUint::from(y) + &p;
                        let lim = if g == 0 { 255 } else { 448 };
                        if yp.bits() <= lim {
                            let mut b = pf::to_le(&yp, len);
                            b[len - 1] |= sign;
                            v.push(b);
                        }
                        let mut b = pf::to_le(&BigUint::from(y), len);
                        b[len - 1] |= sign;
                        v.push(b);
                        let mut b = pf::to_le(&(&p - 1u32 - y), len);
                        b[len - 1] |= sign;
                        v.push(b);
                    }
                }
                if g == 1 {
                    // bits 0..6 of the last byte must be zero
                    for bit in 0..7 {
                        let mut b = e.encode(&e.base);
                        b[56] |= 1 << bit;
                        v.push(b);
                    }
                }
                prop::sample::select(v).boxed()
            }
            2 | 3 => {
                // every prefix byte with a valid body; hybrid encodings; y perturbed; x with no point
                let w = if g == 2 { &refs().p256 } else { &refs().secp256k1 };
                (enc_strategy(g), 0u8..=8, any::<bool>(), 0usize..9, any::<usize>(), prop::collection::vec(any::<u8>(), 32))
                    .prop_map(move |(e, pre, long, m, idx, raw)| {
                        let q = enc_modulus(g);
                        // a point with a small (or zero) abscissa, so that x + p is representable on 32 bytes
                        let small = crate::points::small_coord_encodings(g);
                        let (sx, sy) = match rg(g).decode(&small[idx % small.len()]) { Some(Pt::A(x, y)) => (x, y), _ => (BigUint::zero(), BigUint::zero()) };
                        // a non-canonical 32-byte integer (>= p)
                        let span = (BigUint::one() << 256usize) - &q;
                        let big = match idx % 4 { 0 => q.clone(), 1 => &q + 1u32, 2 => (BigUint::one() << 256usize) - 1u32, _ => &q + (pf::from_le(&raw) % &span) };
                        let unc = |x: &BigUint, y: &BigUint| { let mut v = vec![4u8]; v.extend(pf::to_be(x, 32)); v.extend(pf::to_be(y, 32)); v };
                        let pt = rg(g).decode(&e).unwrap();
                        let mut b = if long { w.encode_uncompressed(&pt) } else { e.clone() };
                        match m {
                            0 => b[0] = pre,
                            1 => {
                                // hybrid form
                                let mut u = w.encode_uncompressed(&pt);
                                u[0] = 6 | (u[64] & 1);
                                b = u;
                            }
                            2 => {
                                let l = b.len() - 1;
                                b[l] ^= 1;
                            }
                            3 => {
                                // all-zero fixed-length strings (what the encoders emit for the neutral)
                                b = vec![0u8; if long { 65 } else { 33 }];
                            }
                            4 => {
                                // x + p with the matching y (the same point written non-canonically)
                                let xp = &sx + &q;
                                if xp.bits() <= 256 { b = unc(&xp, &sy); }
                            }
                            5 => {
                                // an out-of-range X next to the y of a small-abscissa point (x = 0 included): a decoder that
                                // replaces the invalid coordinate by 0 and keeps going would accept it
                                b = unc(&big, &sy);
                            }
                            6 => {
                                // a valid X next to an out-of-range Y
                                b = unc(&sx, &big);
                            }
                            7 => {
                                // compressed, x + p
                                let xp = &sx + &q;
                                if xp.bits() <= 256 { b = vec![2 | (sy.bit(0) as u8)]; b.extend(pf::to_be(&xp, 32)); }
                            }
                            _ => {
                                // compressed, out-of-range X
                                b = vec![2 | (pre & 1)]; b.extend(pf::to_be(&big, 32));
                            }
                        }
                        b
                    })
                    .boxed()
            }
            4 | 5 | 6 => {
                // top bit(s) set on a valid encoding; negated u (same element, non canonical sign is impossible: -u is another element)
                (enc_strategy(g), 0usize..3)
                    .prop_map(move |(mut e, m)| {
                        match m {
                            0 => e[31] |= 0x80,
                            1 => {
                                if g == 6 { e[15] |= 0x80 } else { e[31] |= 0x80 }
                            }
                            _ => {
                                // u -> p - u: the opposite element, must decode and encode back to itself
                                if g != 6 {
                                    let q = enc_modulus(g);
                                    let u = pf::from_le(&e);
                                    e = pf::to_le(&pf::neg(&u, &q), 32);
                                }
                            }
                        }
                        e
                    })
                    .boxed()
            }
            _ => {
                // ristretto255 / decaf448: negative s (s -> p - s), s + p, and encodings of plain curve points that are
                // not in the even subgroup (y coordinate taken as s)
                (enc_strategy(g), 0usize..3, prop::collection::vec(any::<u8>(), len))
                    .prop_map(move |(e, m, raw)| {
                        let q = enc_modulus(g);
                        let s = pf::from_le(&e);
                        match m {
                            0 => pf::to_le(&pf::neg(&s, &q), len),
                            1 => {
                                let x = &s + &q;
                                if x.bits() as usize <= 8 * len { pf::to_le(&x, len) } else { e }
                            }
                            _ => {
                                // even (non-negative) canonical s that is usually not a valid element
                                let mut x = pf::from_le(&raw) % &q;
                                if x.bit(0) { x = pf::neg(&x, &q); }
                                pf::to_le(&x, len)
                            }
                        }
                    })
                    .boxed()
            }
        },
    }
}

fn check_dec<G: Grp>(b: &[u8], form: u8) -> Outcome {
    let mut acc = Acc::new();
    let g = G::G;
    let r = rg(g);
    let name = GROUP_NAMES[g];
    let exp = r.decode(b);
    acc.nt(exp.is_some() || b.len() != r.enc_len() || true);
    acc.tag(if exp.is_some() { "reference_accepts" } else { "reference_rejects" });
    let got = guard(|| G::decode(b, form)).and_then(|x| x);
    match (&got, &exp) {
        (Ok(Some(p)), Some(rp)) => {
            // same element, and re-encoding reproduces the input (SEC1 infinity: documented exception)
            let e = guard(|| p.encode());
            let re = r.encode(rp);
            acc.check(e.as_ref().ok() == Some(&re), || format!("C06:{name}:decode_value"), || format!("decode({}) encodes to {:?}, reference {}", hex(b), e.as_ref().map(|x| hex(x)), hex(&re)));
            if is_weierstrass(g) {
                if b.len() == 1 {
                    let isn = guard(|| G::isneutral(*p));
                    acc.check(isn == Ok(0xFFFFFFFF), || format!("C06:{name}:decode_infinity"), || format!("decode(00) is not the neutral: {:?}", isn));
                    // encoders emit all-zero strings for the neutral, which the decoders reject
                    let z = guard(|| G::decode(&p.encode(), 0)).and_then(|x| x);
                    acc.check(matches!(z, Ok(None)), || format!("C06:{name}:zero_string"), || format!("decode(encode(neutral)) -> {:?}", z.map(|o| o.is_some())));
                } else if b.len() == 33 {
                    acc.check(e.as_ref().ok().map(|v| &v[..]) == Some(b), || format!("C06:{name}:reencode"), || format!("encode(decode(b)) != b for {}", hex(b)));
                } else {
                    let u = guard(|| uncompressed::<G>(*p));
                    acc.check(u.as_ref().ok().map(|v| &v[..]) == Some(b), || format!("C06:{name}:reencode"), || format!("encode_uncompressed(decode(b)) != b for {}", hex(b)));
                }
            } else {
                acc.check(e.as_ref().ok().map(|v| &v[..]) == Some(b), || format!("C06:{name}:reencode"), || format!("encode(decode(b)) = {:?} != b = {}", e.as_ref().map(|x| hex(x)), hex(b)));
            }
        }
        (Ok(None), None) => {
            acc.check(true, String::new, String::new);
        }
        (Ok(o), e) => {
            let (o, e) = (o.is_some(), e.is_some());
            acc.check(false, || format!("C06:{name}:{}", if o { "accepts_invalid" } else { "rejects_valid" }), || format!("decode({}) accepted={} but the reference says {}", hex(b), o, e));
        }
        (Err(s), _) => {
            acc.check(false, || format!("C06:{name}:decode:{s}"), || format!("decode({}) failed: {s}", hex(b)));
        }
    }
    acc.done()
}

fn uncompressed<G: Grp>(p: G) -> Vec<u8> {
    use std::any::Any;
    let a: &dyn Any = &p;
    if let Some(p) = a.downcast_ref::<crrl::p256::Point>() {
        return p.encode_uncompressed().to_vec();
    }
    if let Some(p) = a.downcast_ref::<crrl::secp256k1::Point>() {
        return p.encode_uncompressed().to_vec();
    }
    panic!("not a Weierstrass point")
}

fn check_pair<G: Grp>(a: &PV, b: &PV, via: &PV, mode: u8) -> Outcome {
    let mut acc = Acc::new();
    let g = G::G;
    let r = rg(g);
    let name = GROUP_NAMES[g];
    let pa: G = build_pv(a);
    let ra = ref_pv(g, a);
    let pv: G = build_pv(via);
    // mode: 0 independent b; 1 (a + via) - via; 2 (a - via) + via; 3 decode(encode(a)); 4 2a - a; 5 -(-a);
    // 6 -((n-1)*a): same element, the representative may differ by a torsion point (n - 1 = 0 mod cofactor);
    // 7 (quotient groups, hooks) the representative of a shifted by an admissible torsion point
    let (pb, rb): (G, _) = match mode % 8 {
        1 => (G::sub(G::add(pa, pv, 0), pv, 0), ra.clone()),
        2 => (G::add(G::sub(pa, pv, 0), pv, 0), ra.clone()),
        3 => {
            let e = pa.encode();
            let d = if is_weierstrass(g) && r.is_neutral(&ra) { Some(G::neutral()) } else { G::decode(&e, 0).ok().flatten() };
            match d {
                Some(p) => (p, ra.clone()),
                None => {
                    return Outcome::fail(format!("C06:{name}:roundtrip"), format!("decode(encode(P)) failed for P = {}", hex(&e)));
                }
            }
        }
        4 => (G::sub(G::double(pa, 0), pa, 0), ra.clone()),
        5 => (G::neg(G::neg(pa, 0), 0), ra.clone()),
        6 => {
            let nm1: G::S = scalar_of::<G>(&(r.order() - 1u32));
            // on the Edwards curves a may carry a torsion component, so the value is computed in the model
            (G::neg(G::mul(pa, &nm1, 0), 0), r.neg(&r.mul(&(r.order() - 1u32), &ra)))
        }
        7 if is_quotient(g) && a.chain.is_empty() => {
            let enc = r.encode(&ra);
            let shifted = PSrc::Rep(enc, (mode >> 3) | 1);
            (build_src(&shifted), ra.clone())
        }
        0 if is_weierstrass(g) && (mode >> 3) % 3 != 0 && !r.is_neutral(&ra) => {
            // a different point that shares one affine coordinate with a: (x, -y), or - on a curve with j = 0 (secp256k1),
            // where x -> beta*x with beta^3 = 1 is an automorphism - (beta*x, y): equality tests that compare one
            // coordinate only cannot tell them apart
            let w = if g == 2 { &refs().p256 } else { &refs().secp256k1 };
            let Pt::A(x, y) = ra.clone() else { unreachable!() };
            let other = if (mode >> 3) % 3 == 1 {
                Pt::A(x, pf::neg(&y, &w.p))
            } else {
                // beta = (-1 + sqrt(-3))/2 when -3 is a square mod p and the curve has a = 0
                match (w.a.is_zero(), pf::sqrt_any(&(&w.p - 3u32), &w.p)) {
                    (true, Some(s3)) => {
                        let beta = pf::mul(&pf::sub(&s3, &BigUint::one(), &w.p), &pf::inv(&BigUint::from(2u32), &w.p), &w.p);
                        Pt::A(pf::mul(&x, &beta, &w.p), y)
                    }
                    _ => Pt::A(x, pf::neg(&y, &w.p)),
                }
            };
            acc.tag("other_point_sharing_one_coordinate");
            (build_src(&PSrc::Enc(r.encode(&other))), other)
        }
        _ => (build_pv(b), ref_pv(g, b)),
    };
    let independent = !matches!(mode % 8, 1..=6) && !(mode % 8 == 7 && is_quotient(g) && a.chain.is_empty());
    acc.nt(!independent);
    if !independent {
        acc.tag("same_element_other_representative");
    }
    let (ea, eb) = (guard(|| pa.encode()), guard(|| pb.encode()));
    let (xa, xb) = (r.encode(&ra), r.encode(&rb));
    acc.check(ea.as_ref().ok() == Some(&xa) && eb.as_ref().ok() == Some(&xb), || format!("C06:{name}:encode"), || format!("encodings {:?} / {:?} differ from the reference {} / {}", ea.as_ref().map(|x| hex(x)), eb.as_ref().map(|x| hex(x)), hex(&xa), hex(&xb)));
    // injectivity: equal <=> byte-identical encodings
    let eq = guard(|| G::equals(pa, pb));
    let same_bytes = ea.is_ok() && ea == eb;
    acc.check(eq == Ok(if same_bytes { 0xFFFFFFFF } else { 0 }), || format!("C06:{name}:equals_vs_encoding"), || format!("equals = {:?} but encodings identical = {}", eq, same_bytes));
    acc.check(same_bytes == (xa == xb), || format!("C06:{name}:representative_dependence"), || format!("encodings identical = {} but the reference says same element = {}", same_bytes, xa == xb));
    let isn = guard(|| G::isneutral(pb));
    acc.check(isn == Ok(if r.is_neutral(&rb) { 0xFFFFFFFF } else { 0 }), || format!("C06:{name}:isneutral"), || format!("isneutral = {:?}, reference {}", isn, r.is_neutral(&rb)));
    // the difference of two constructions: neutral (in whatever representative the subtraction produces) iff same element
    let d = guard(|| { let d = G::sub(pa, pb, 0); (G::isneutral(d), d.encode(), G::equals(d, G::neutral())) });
    let same = xa == xb;
    let zero = r.encode(&r.neutral());
    let okd = match &d { Ok((i, e, q)) => *i == if same { 0xFFFFFFFF } else { 0 } && (*e == zero) == same && *q == if same { 0xFFFFFFFF } else { 0 }, Err(_) => false };
    acc.check(okd, || format!("C06:{name}:difference_neutrality"), || format!("a - b: (isneutral, encoding, equals(NEUTRAL)) = {:?} but the reference says same element = {}", d.as_ref().map(|(i, e, q)| (format!("{i:08x}"), hex(e), format!("{q:08x}"))), same));
    acc.done()
}

fn check_map(g: usize, b: &[u8]) -> Outcome {
    let mut acc = Acc::new();
    acc.nt(true);
    let name = GROUP_NAMES[g];
    let (got, exp) = if g == 7 {
        (guard(|| crrl::ristretto255::Point::one_way_map(b).encode().to_vec()), rg(7).encode(&refs().r255.one_way_map(b)))
    } else {
        (guard(|| crrl::decaf448::Point::one_way_map(b).encode().to_vec()), rg(8).encode(&refs().d448.one_way_map(b)))
    };
    acc.check(got.as_ref().ok() == Some(&exp), || format!("C06:{name}:one_way_map"), || format!("one_way_map({}) -> {:?} expected {}", hex(b), got.as_ref().map(|x| hex(x)), hex(&exp)));
    acc.done()
}

fn check_hash(g: usize, hname: &str, data: &[u8]) -> Outcome {
    let mut acc = Acc::new();
    acc.nt(true);
    let name = GROUP_NAMES[g];
    let h = |n: &str, d: &[u8]| -> Result<Vec<u8>, String> {
        guard(|| match g {
            4 => crrl::jq255e::Point::hash_to_curve(n, d).encode().to_vec(),
            5 => crrl::jq255s::Point::hash_to_curve(n, d).encode().to_vec(),
            _ => crrl::gls254::Point::hash_to_curve(n, d).encode().to_vec(),
        })
    };
    let e1 = h(hname, data);
    let valid = e1.as_ref().ok().map(|e| rg(g).decode(e).map(|p| rg(g).encode(&p) == *e).unwrap_or(false)).unwrap_or(false);
    acc.check(valid, || format!("C06:{name}:hash_to_curve_valid"), || format!("hash_to_curve({hname:?}, {}) -> {:?} is not a canonical valid element", hex(data), e1.as_ref().map(|x| hex(x))));
    let e2 = h(hname, data);
    acc.check(e1 == e2, || format!("C06:{name}:hash_to_curve_deterministic"), || "two calls differ".into());
    // domain separation: another tag or one more byte gives another element
    let other = if hname.is_empty() { "sha256" } else { "" };
    let e3 = h(other, data);
    acc.check(e3.is_ok() && e3 != e1, || format!("C06:{name}:hash_to_curve_domain"), || format!("hash_name {hname:?} and {other:?} give the same element"));
    let mut d2 = data.to_vec();
    d2.push(0);
    let e4 = h(hname, &d2);
    acc.check(e4.is_ok() && e4 != e1, || format!("C06:{name}:hash_to_curve_domain"), || "data and data||00 give the same element".to_string());
    acc.done()
}

impl C06 {
    pub fn new() -> Self {
        let mut classes = Vec::new();
        for g in 0..NGROUPS {
            for (dc, dn) in DEC_CLASSES.iter().enumerate() {
                classes.push((cls(leak(format!("{}/dec/{}", GROUP_NAMES[g], dn)), 400, 60_000), Kind::Dec(g, dc)));
            }
            for (pc, pn) in PSRC_CLASSES.iter().enumerate() {
                classes.push((cls(leak(format!("{}/pair/{}", GROUP_NAMES[g], pn)), 150, 20_000), Kind::Pair(g, pc)));
            }
            if is_quotient(g) {
                classes.push((cls(leak(format!("{}/one_way_map", GROUP_NAMES[g])), 500, 60_000), Kind::Map(g)));
            }
            if (4..=6).contains(&g) {
                classes.push((cls(leak(format!("{}/hash_to_curve", GROUP_NAMES[g])), 300, 40_000), Kind::Hash(g)));
            }
        }
        C06 { classes }
    }
}

impl C06 {
    pub fn new_cached() -> &'static C06 {
        static C: std::sync::OnceLock<C06> = std::sync::OnceLock::new();
        C.get_or_init(C06::new)
    }
}

impl Property for C06 {
    type Case = Case;
    fn id(&self) -> &'static str {
        "C06"
    }
    fn rule(&self) -> String {
        "Dec cases: byte strings per format (valid encodings incl. SEC1 compressed/uncompressed/0x00; one mutation: bit flip, sign/parity flip, coordinate + modulus, byte inserted/dropped/replaced; integers within 3 of 0, p, 2p, 2^k; lengths 0..114; uniform with every SEC1 prefix byte; format-specific: low-order points and their sign flips, x = 0 with sign bit, non-canonical y, hybrid SEC1, all-zero fixed-length strings, top bits set, negative / non-canonical / non-member ristretto255-decaf448 strings) decoded by decode()/set_decode() and by the reference decoder: accept sets must agree, the decoded element must be the reference element and re-encode to the input (documented SEC1 infinity exception encoded as stated). Pair cases: an element and a second construction of it ((a+v)-v, (a-v)+v, decode(encode(a)), 2a-a, -(-a), torsion-shifted representatives, scaled projective coordinates) or an independent element: equals <=> byte-identical encodings <=> same reference element; isneutral. Map cases: one_way_map of 64/112 bytes (uniform and boundary fills) byte-for-byte against RFC 9496. Hash cases: hash_to_curve outputs are canonical valid elements, deterministic, and change with hash_name / data (validity only: no independent reference of the jq255/GLS254 maps). Every case counts as non-trivial except independent pairs. distinct = distinct case hash.".into()
    }
    fn shard_size(&self) -> u64 {
        50
    }
    fn shrink_iters(&self) -> u32 {
        300
    }
    fn classes(&self) -> Vec<ClassSpec> {
        self.classes.iter().map(|c| c.0.clone()).collect()
    }
    fn strategy(&self, class: usize) -> BoxedStrategy<Case> {
        match self.classes[class].1.clone() {
            Kind::Dec(g, dc) => (dec_strategy(g, dc), any::<u8>()).prop_map(move |(b, form)| Case::Dec { g: g as u8, b, form }).boxed(),
            Kind::Pair(g, pc) => (pv_strategy(g, pc, false), prop::bool::weighted(0.4).prop_flat_map(move |ch| pv_strategy(g, pc, ch)), any_pv(g), any_pv(g), any::<u8>())
                
                .prop_map(move |(_, a, b, via, mode)| Case::Pair { g: g as u8, a, b, via, mode })
                .boxed(),
            Kind::Map(g) => {
                let n = if g == 7 { 64 } else { 112 };
                prop_oneof![
                    4 => prop::collection::vec(any::<u8>(), n),
                    1 => prop::collection::vec(prop::sample::select(vec![0u8, 0xFF, 0x7F, 0x80, 1, 0xED, 0xEC, 0xEE]), n),
                    1 => (prop::collection::vec(any::<u8>(), n), 0usize..4).prop_map(move |(mut b, m)| {
                        // halves equal to p-1, p, p+1 patterns / top bits set
                        let h = n / 2;
                        match m { 0 => { for x in &mut b[..h] { *x = 0xFF; } } 1 => { for x in &mut b[h..] { *x = 0xFF; } } 2 => { for x in &mut b[..h] { *x = 0; } } _ => { b[h - 1] |= 0x80; b[n - 1] |= 0x80; } }
                        b
                    }),
                ]
                .prop_map(move |b| Case::Map { g: g as u8, b })
                .boxed()
            }
            Kind::Hash(g) => (prop::sample::select(vec!["", "sha256", "sha512", "blake2s", "sha3256", "x", "a-very-long-hash-function-name-0123456789"]), prop::collection::vec(any::<u8>(), 0..200))
                .prop_map(move |(n, data)| Case::Hash { g: g as u8, name: n.to_string(), data })
                .boxed(),
        }
    }
    fn check(&self, c: &Case) -> Outcome {
        match c {
            Case::Dec { g, b, form } => with_group!(*g as usize, check_dec(b, *form)),
            Case::Pair { g, a, b, via, mode } => with_group!(*g as usize, check_pair(a, b, via, *mode)),
            Case::Map { g, b } => check_map(*g as usize, b),
            Case::Hash { g, name, data } => check_hash(*g as usize, name, data),
        }
    }
}
