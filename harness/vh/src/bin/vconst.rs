use vh::engine::hex;
fn main() {
    println!("ed25519 B {}", hex(&crrl::ed25519::Point::BASE.encode()));
    println!("ed448 B {}", hex(&crrl::ed448::Point::BASE.encode()));
    println!("p256 B {}", hex(&crrl::p256::Point::BASE.encode_uncompressed()));
    println!("secp256k1 B {}", hex(&crrl::secp256k1::Point::BASE.encode_uncompressed()));
    println!("jq255e B {}", hex(&crrl::jq255e::Point::BASE.encode()));
    println!("jq255s B {}", hex(&crrl::jq255s::Point::BASE.encode()));
    println!("gls254 B {}", hex(&crrl::gls254::Point::BASE.encode()));
    println!("ristretto255 B {}", hex(&crrl::ristretto255::Point::BASE.encode()));
    println!("decaf448 B {}", hex(&crrl::decaf448::Point::BASE.encode()));
    println!("gls254 MU {}", hex(&crrl::gls254::Scalar::MU.encode()));
    macro_rules! m { ($t:ty) => { println!("{} q {:x}", <$t as vh::fieldapi::PF>::NAME, <$t as vh::fieldapi::PF>::modulus()); } }
    vh::for_all_pf!(m);
}
