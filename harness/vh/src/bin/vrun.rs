use serde_json::Value;
use vh::engine::*;

fn config_name() -> String {
    let mut v: Vec<&str> = Vec::new();
    if cfg!(feature = "w32") { v.push("w32"); }
    if cfg!(feature = "m51") { v.push("m51"); }
    if cfg!(feature = "zz32") { v.push("zz32"); }
    if cfg!(feature = "clmul") { v.push("clmul"); }
    if cfg!(target_feature = "avx2") { v.push("avx2"); }
    if v.is_empty() { "base".into() } else { v.join("+") }
}

fn arg(args: &[String], name: &str) -> Option<String> {
    args.iter().position(|a| a == name).and_then(|i| args.get(i + 1).cloned())
}

fn main() {
    let args: Vec<String> = std::env::args().collect();
    if args.len() < 2 {
        eprintln!("usage: vrun run <ID> --tier quick|thorough [--seed N] [--out FILE] | replay <file> | list | selftest");
        std::process::exit(2);
    }
    install_quiet_panic_hook();
    let root = std::env::var("VERIF_ROOT").unwrap_or_else(|_| "/verif".into());
    match args[1].as_str() {
        "list" => {
            for p in vh::props::IDS {
                println!("{}", p);
            }
        }
        "config" => println!("{}", config_name()),
        "corpus" => {
            // vrun corpus <dir> [n]: seed corpus for the `total` fuzz target from the structured generators
            let dir = args.get(2).expect("directory");
            let n: usize = args.get(3).and_then(|s| s.parse().ok()).unwrap_or(4);
            std::fs::create_dir_all(dir).unwrap();
            let p = vh::props::c19::C19::new();
            use vh::engine::Property;
            let mut k = 0;
            for ci in 0..p.classes().len() {
                for c in sample_strategy(&p.strategy(ci), 7 + ci as u64, n) {
                    std::fs::write(format!("{dir}/seed-{k:05}"), vh::props::c19::case_to_bytes(&c)).unwrap();
                    k += 1;
                }
            }
            println!("{k} corpus files written");
        }
        "fuzzcase" => {
            // vrun fuzzcase <artifact> <replay-out>: re-execute a libFuzzer artifact of target `total` in this (release) build
            let data = std::fs::read(args.get(2).expect("artifact")).expect("read artifact");
            let Some(c) = vh::props::c19::case_from_bytes(&data) else { println!("artifact too short"); return; };
            let o = vh::props::c19::check_case(&c);
            match o.verdict {
                Verdict::Pass => println!("fuzzcase: holds in this build"),
                Verdict::Fail { sig, msg } => {
                    let out = args.get(3).cloned().unwrap_or_else(|| format!("{root}/replays/C19/fuzz-{:016x}.json", case_key(&c)));
                    let v = serde_json::json!({"property": "C19", "config": config_name(), "class": "fuzz", "signature": sig, "message": msg, "case": serde_json::to_value(&c).unwrap()});
                    let _ = std::fs::create_dir_all(std::path::Path::new(&out).parent().unwrap());
                    std::fs::write(&out, serde_json::to_string_pretty(&v).unwrap()).unwrap();
                    let known = load_known(&format!("{root}/known_findings.json"));
                    if let Some(k) = known.iter().find(|k| k.property == "C19" && k.status == "known" && k.signature == v["signature"].as_str().unwrap()) {
                        println!("KNOWN-FINDING: property=C19 {}", k.what);
                    } else {
                        println!("VIOLATION property=C19 replay={out}");
                        std::process::exit(1);
                    }
                }
            }
        }
        "selftest" => {
            let errs = vh::selftest::run();
            for e in &errs {
                eprintln!("selftest: {e}");
            }
            if errs.is_empty() {
                println!("selftest ok");
            } else {
                std::process::exit(2);
            }
        }
        "run" => {
            let id = args.get(2).expect("property id");
            let Some(p) = vh::props::by_id(id) else {
                eprintln!("unknown property {id}");
                std::process::exit(2);
            };
            let tier = match arg(&args, "--tier").as_deref() {
                Some("thorough") => Tier::Thorough,
                _ => Tier::Quick,
            };
            let seed: u64 = arg(&args, "--seed").or_else(|| std::env::var("VERIF_SEED").ok()).and_then(|s| s.parse().ok()).unwrap_or(1);
            let threads: usize = arg(&args, "--threads").and_then(|s| s.parse().ok()).unwrap_or_else(|| std::thread::available_parallelism().map(|n| n.get()).unwrap_or(4));
            let cfg = RunCfg {
                tier,
                seed,
                threads,
                config_name: arg(&args, "--config").unwrap_or_else(config_name),
                known: load_known(&format!("{root}/known_findings.json")),
                replay_dir: arg(&args, "--replay-dir").unwrap_or_else(|| format!("{root}/replays")),
                scale: arg(&args, "--scale").and_then(|s| s.parse().ok()).unwrap_or(1.0),
                only_class: arg(&args, "--class"),
            };
            let mut res = p.run(&cfg);
            // replay tier: every saved case of this property is re-executed in this configuration
            let mut replayed = 0u64;
            if cfg.only_class.is_none() {
                let dir = format!("{root}/replays/{id}");
                let mut files: Vec<_> = std::fs::read_dir(&dir).map(|d| d.filter_map(|e| e.ok()).map(|e| e.path()).collect()).unwrap_or_default();
                files.sort();
                for f in files {
                    if f.extension().and_then(|x| x.to_str()) != Some("json") { continue; }
                    let Ok(txt) = std::fs::read_to_string(&f) else { continue };
                    let Ok(v) = serde_json::from_str::<Value>(&txt) else { continue };
                    if v["property"].as_str() != Some(id.as_str()) { continue; }
                    match p.replay(&v) {
                        Ok(o) => {
                            replayed += 1;
                            if let Verdict::Fail { sig, msg } = o.verdict {
                                if let Some(k) = cfg.known.iter().find(|k| &k.property == id && k.status == "known" && k.signature == sig) {
                                    let a = res["known_findings_hit"].as_array_mut().unwrap();
                                    if !a.iter().any(|x| x["signature"].as_str() == Some(sig.as_str())) {
                                        a.push(serde_json::json!({"signature": sig, "count": 1, "what": k.what}));
                                    }
                                } else {
                                    res["violations"].as_array_mut().unwrap().push(serde_json::json!({"signature": sig, "message": msg, "replay": f.to_string_lossy(), "class": "replay", "config": cfg.config_name}));
                                }
                            }
                        }
                        Err(e) => eprintln!("replay file {} not usable: {e}", f.display()),
                    }
                }
            }
            res["replayed_saved_cases"] = serde_json::json!(replayed);
            let txt = serde_json::to_string_pretty(&res).unwrap();
            if let Some(out) = arg(&args, "--out") {
                std::fs::write(&out, &txt).expect("write result");
            } else {
                println!("{txt}");
            }
            for k in res["known_findings_hit"].as_array().unwrap() {
                println!("KNOWN-FINDING: property={} {} [{} x{} in config {}]", id, k["what"].as_str().unwrap_or(""), k["signature"].as_str().unwrap_or(""), k["count"], cfg.config_name);
            }
            let viol = res["violations"].as_array().unwrap();
            for v in viol {
                println!("VIOLATION property={} replay={}", id, v["replay"].as_str().unwrap_or("?"));
                eprintln!("  signature: {}\n  message: {}", v["signature"].as_str().unwrap_or(""), v["message"].as_str().unwrap_or(""));
            }
            if !viol.is_empty() {
                std::process::exit(1);
            }
            let unreached = res["unreached_classes"].as_array().unwrap();
            if !unreached.is_empty() {
                eprintln!("harness error: classes not reached: {:?}", unreached);
                std::process::exit(2);
            }
        }
        "replay" => {
            let path = args.get(2).expect("replay file");
            let txt = std::fs::read_to_string(path).expect("read replay file");
            let v: Value = serde_json::from_str(&txt).expect("replay JSON");
            let id = v["property"].as_str().expect("property field");
            let Some(p) = vh::props::by_id(id) else {
                eprintln!("unknown property {id}");
                std::process::exit(2);
            };
            match p.replay(&v) {
                Ok(o) => match o.verdict {
                    Verdict::Pass => println!("replay: property {id} holds on this case"),
                    Verdict::Fail { sig, msg } => {
                        let known = load_known(&format!("{root}/known_findings.json"));
                        if let Some(k) = known.iter().find(|k| k.property == id && k.status == "known" && k.signature == sig) {
                            println!("KNOWN-FINDING: property={} {} [{}]", id, k.what, sig);
                        } else {
                            println!("VIOLATION property={} replay={}", id, path);
                            eprintln!("  signature: {sig}\n  message: {msg}");
                            std::process::exit(1);
                        }
                    }
                },
                Err(e) => {
                    eprintln!("replay error: {e}");
                    std::process::exit(2);
                }
            }
        }
        other => {
            eprintln!("unknown command {other}");
            std::process::exit(2);
        }
    }
}
