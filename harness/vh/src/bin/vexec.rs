//! vexec: executes seeded operation traces and prints the observable transcript (C18), and runs the
//! constant-time entry points on tainted secrets under valgrind (C02).
use vh::engine::*;

fn arg(args: &[String], name: &str) -> Option<String> {
    args.iter().position(|a| a == name).and_then(|i| args.get(i + 1).cloned())
}

fn main() {
    let args: Vec<String> = std::env::args().collect();
    install_quiet_panic_hook();
    match args.get(1).map(|s| s.as_str()) {
        Some("transcript") => {
            let seed: u64 = arg(&args, "--seed").and_then(|s| s.parse().ok()).unwrap_or(1);
            let count: usize = arg(&args, "--count").and_then(|s| s.parse().ok()).unwrap_or(1000);
            let threads: usize = arg(&args, "--threads").and_then(|s| s.parse().ok()).unwrap_or(4);
            if let Some(f) = arg(&args, "--op-file") {
                // re-executes the operation stored in a replay file (independent of the trace generator)
                let doc: serde_json::Value = serde_json::from_str(&std::fs::read_to_string(&f).expect("op file")).expect("json");
                let op: vh::transcript::Op = serde_json::from_value(doc["op"].clone()).expect("op");
                println!("{}", serde_json::to_string_pretty(&serde_json::json!({"op": doc["op"], "output": guard(|| hex(&vh::transcript::exec(&op)))})).unwrap());
                return;
            }
            let ops = vh::transcript::trace(seed, count);
            if let Some(d) = arg(&args, "--dump") {
                let i: usize = d.parse().unwrap();
                println!("{}", serde_json::to_string_pretty(&serde_json::json!({"index": i, "op": serde_json::to_value(&ops[i]).unwrap(), "output": guard(|| hex(&vh::transcript::exec(&ops[i])))})).unwrap());
                return;
            }
            let mut lines: Vec<String> = vec![String::new(); ops.len()];
            let next = std::sync::atomic::AtomicUsize::new(0);
            let out = std::sync::Mutex::new(&mut lines);
            std::thread::scope(|s| {
                for _ in 0..threads {
                    s.spawn(|| loop {
                        let i = next.fetch_add(1, std::sync::atomic::Ordering::Relaxed);
                        if i >= ops.len() { break; }
                        let l = vh::transcript::line(i, &ops[i]);
                        out.lock().unwrap()[i] = l;
                    });
                }
            });
            for l in lines { println!("{l}"); }
        }
        Some("ct") => vh::ct::main(&args),
        _ => {
            eprintln!("usage: vexec transcript --seed N --count K [--dump i] | vexec ct ...");
            std::process::exit(2);
        }
    }
}
