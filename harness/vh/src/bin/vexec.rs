fn main(){}
