//! Uniform adapter over every prime-field / scalar-field type exported by crrl
//! (and harness-defined instances of the generic types).

#![allow(non_camel_case_types)]

use num_bigint::BigUint;
use refmodel::pf;

/// Documented split bound class of a modulus (see backend/mod.rs, `split_vartime`).
#[derive(Clone, Copy, PartialEq, Eq, Debug)]
pub enum SplitKind {
    None,
    /// (i128, i128) with the documented +/- a*2^128 corrections
    I128,
    /// gfgen: signed little-endian byte arrays, exact
    Bytes,
}

pub trait ToBig {
    fn to_big(&self) -> BigUint;
}
impl<const N: usize> ToBig for [u64; N] {
    fn to_big(&self) -> BigUint {
        pf::from_limbs_le(self)
    }
}
impl<const N: usize> ToBig for [u32; N] {
    fn to_big(&self) -> BigUint {
        BigUint::new(self.to_vec())
    }
}

pub trait PF: Copy + Send + Sync + 'static {
    const NAME: &'static str;
    /// number of 64-bit limbs taken by the raw constructors
    const NLIMBS: usize;
    /// whether the raw-limb constructor stores the limbs unreduced (redundant representation)
    const RAW_UNREDUCED: bool;
    const HAS_MUL3: bool;
    const HAS_MUL_SMALL: bool;
    const HAS_SQRT: bool;
    const HAS_SQRT_EXT: bool;
    const HAS_DECODE32: bool;
    const HAS_INVERT: bool;
    const SPLIT: SplitKind;
    /// modulus is prime (false only for harness-defined composite moduli)
    const PRIME: bool = true;

    fn modulus() -> BigUint;
    fn enc_len() -> usize;
    fn zero() -> Self;
    fn one() -> Self;
    fn minus_one() -> Self;
    /// kind: 0 = from_w64le, 1 = w64le (const fn), 2 = from_w64be, 3 = w64be; limbs always given little-endian
    fn from_limbs(l: &[u64], kind: u8) -> Self;
    fn from_i32(x: i32) -> Self;
    fn from_u32(x: u32) -> Self;
    fn from_i64(x: i64) -> Self;
    fn from_u64(x: u64) -> Self;
    fn from_i128(x: i128) -> Self;
    fn from_u128(x: u128) -> Self;

    fn add(a: Self, b: Self, form: u8) -> Self;
    fn sub(a: Self, b: Self, form: u8) -> Self;
    fn mul(a: Self, b: Self, form: u8) -> Self;
    fn div(a: Self, b: Self, form: u8) -> Self;
    fn neg(a: Self, form: u8) -> Self;
    fn square(a: Self, form: u8) -> Self;
    fn xsquare(a: Self, n: u32) -> Self;
    fn half(a: Self) -> Self;
    /// k in {2,4,8,16,32}
    fn mulk(a: Self, k: u32, form: u8) -> Self;
    fn mul3(a: Self) -> Self;
    fn mul_small(a: Self, x: u32, form: u8) -> Self;
    fn invert(a: Self) -> Self;
    fn legendre(a: Self) -> i32;
    fn sqrt(a: Self) -> (Self, u32);
    fn sqrt_ext(a: Self) -> (Self, u32);
    fn batch_invert(xx: &mut [Self]);
    fn equals(a: Self, b: Self) -> u32;
    fn iszero(a: Self) -> u32;
    fn set_cond(a: &mut Self, b: &Self, ctl: u32);
    fn select(a: &Self, b: &Self, ctl: u32) -> Self;
    fn cswap(a: &mut Self, b: &mut Self, ctl: u32);
    fn encode(a: Self) -> Vec<u8>;
    /// plain library encoding without any harness-side comparison (used on tainted values by the C02 driver)
    fn encode_ct(a: Self) -> Vec<u8>;
    /// form 0: decode_ct, 1: set_decode_ct on a pre-filled element
    fn decode_ct(b: &[u8], form: u8) -> (Self, u32);
    fn decode(b: &[u8]) -> Option<Self>;
    fn decode_reduce(b: &[u8], form: u8) -> Self;
    fn decode32(b: &[u8]) -> (Self, u32);
    fn split_i128(a: Self) -> (i128, i128);
    fn split_bytes(a: Self) -> (Vec<u8>, Vec<u8>);

    /// value as integer (through the canonical encoding)
    fn to_int(a: Self) -> BigUint {
        pf::from_le(&Self::encode(a))
    }
    /// build from an integer < 2^(64*NLIMBS) through the raw constructor
    fn from_int(x: &BigUint) -> Self {
        Self::from_limbs(&pf::to_limbs_le(x, Self::NLIMBS), 0)
    }
}

macro_rules! binop_forms {
    ($a:ident, $b:ident, $form:ident, $op:tt, $opa:tt) => {{
        match $form % 6 {
            0 => $a $op $b,
            1 => &$a $op &$b,
            2 => { let mut r = $a; r $opa $b; r }
            3 => { let mut r = $a; r $opa &$b; r }
            4 => $a $op &$b,
            _ => &$a $op $b,
        }
    }};
}

macro_rules! pf_common {
    ($t:ty) => {
        fn zero() -> Self { <$t>::ZERO }
        fn one() -> Self { <$t>::ONE }
        fn minus_one() -> Self { <$t>::MINUS_ONE }
        fn from_i32(x: i32) -> Self { <$t>::from_i32(x) }
        fn from_u32(x: u32) -> Self { <$t>::from_u32(x) }
        fn from_i64(x: i64) -> Self { <$t>::from_i64(x) }
        fn from_u64(x: u64) -> Self { <$t>::from_u64(x) }
        fn from_i128(x: i128) -> Self { <$t>::from_i128(x) }
        fn from_u128(x: u128) -> Self { <$t>::from_u128(x) }
        fn add(a: Self, b: Self, form: u8) -> Self { binop_forms!(a, b, form, +, +=) }
        fn sub(a: Self, b: Self, form: u8) -> Self { binop_forms!(a, b, form, -, -=) }
        fn mul(a: Self, b: Self, form: u8) -> Self { binop_forms!(a, b, form, *, *=) }
        fn div(a: Self, b: Self, form: u8) -> Self { binop_forms!(a, b, form, /, /=) }
        fn neg(a: Self, form: u8) -> Self {
            match form % 3 { 0 => -a, 1 => -&a, _ => { let mut r = a; r.set_neg(); r } }
        }
        fn square(a: Self, form: u8) -> Self {
            match form % 2 { 0 => a.square(), _ => { let mut r = a; r.set_square(); r } }
        }
        fn xsquare(a: Self, n: u32) -> Self { a.xsquare(n) }
        fn half(a: Self) -> Self { a.half() }
        fn legendre(a: Self) -> i32 { a.legendre() }
        fn batch_invert(xx: &mut [Self]) { <$t>::batch_invert(xx) }
        fn equals(a: Self, b: Self) -> u32 { a.equals(b) }
        fn iszero(a: Self) -> u32 { a.iszero() }
        fn set_cond(a: &mut Self, b: &Self, ctl: u32) { a.set_cond(b, ctl) }
        fn select(a: &Self, b: &Self, ctl: u32) -> Self { <$t>::select(a, b, ctl) }
        fn cswap(a: &mut Self, b: &mut Self, ctl: u32) { <$t>::cswap(a, b, ctl) }
        fn decode_ct(b: &[u8], form: u8) -> (Self, u32) {
            match form % 2 {
                0 => <$t>::decode_ct(b),
                _ => { let mut r = <$t>::MINUS_ONE; let s = r.set_decode_ct(b); (r, s) }
            }
        }
        fn decode(b: &[u8]) -> Option<Self> { <$t>::decode(b) }
        fn decode_reduce(b: &[u8], form: u8) -> Self {
            match form % 2 {
                0 => <$t>::decode_reduce(b),
                _ => { let mut r = <$t>::MINUS_ONE; r.set_decode_reduce(b); r }
            }
        }
    };
}

macro_rules! limbs4 {
    ($t:ty) => {
        fn from_limbs(l: &[u64], kind: u8) -> Self {
            match kind % 4 {
                0 => <$t>::from_w64le(l[0], l[1], l[2], l[3]),
                1 => <$t>::w64le(l[0], l[1], l[2], l[3]),
                2 => <$t>::from_w64be(l[3], l[2], l[1], l[0]),
                _ => <$t>::w64be(l[3], l[2], l[1], l[0]),
            }
        }
    };
}

macro_rules! limbsn {
    ($t:ty, $n:expr) => {
        fn from_limbs(l: &[u64], kind: u8) -> Self {
            let mut a = [0u64; $n];
            a.copy_from_slice(&l[..$n]);
            let mut b = a;
            b.reverse();
            match kind % 4 {
                0 => <$t>::from_w64le(a),
                1 => <$t>::w64le(a),
                2 => <$t>::from_w64be(b),
                _ => <$t>::w64be(b),
            }
        }
    };
}

macro_rules! mulk_value_forms {
    () => {
        fn mulk(a: Self, k: u32, _form: u8) -> Self {
            match k { 2 => a.mul2(), 4 => a.mul4(), 8 => a.mul8(), 16 => a.mul16(), _ => a.mul32() }
        }
    };
}

macro_rules! mulk_set_forms {
    () => {
        fn mulk(a: Self, k: u32, form: u8) -> Self {
            if form % 2 == 0 {
                match k { 2 => a.mul2(), 4 => a.mul4(), 8 => a.mul8(), 16 => a.mul16(), _ => a.mul32() }
            } else {
                let mut r = a;
                match k { 2 => r.set_mul2(), 4 => r.set_mul4(), 8 => r.set_mul8(), 16 => r.set_mul16(), _ => r.set_mul32() }
                r
            }
        }
    };
}

macro_rules! no_split {
    () => {
        const SPLIT: SplitKind = SplitKind::None;
        fn split_i128(_a: Self) -> (i128, i128) { unreachable!() }
        fn split_bytes(_a: Self) -> (Vec<u8>, Vec<u8>) { unreachable!() }
    };
}

/// GF255<MQ> (m64 / m51 / w32): mul_small, sqrt + sqrt_ext (unless q = 1 mod 8), split.
macro_rules! impl_pf_gf255 {
    ($t:ty, $name:expr, $raw:expr, $has_sqrt:expr) => {
        impl PF for $t {
            const NAME: &'static str = $name;
            const NLIMBS: usize = 4;
            const RAW_UNREDUCED: bool = $raw;
            const HAS_MUL3: bool = false;
            const HAS_MUL_SMALL: bool = true;
            const HAS_SQRT: bool = $has_sqrt;
            const HAS_SQRT_EXT: bool = $has_sqrt;
            const HAS_DECODE32: bool = true;
            const HAS_INVERT: bool = false;
            const SPLIT: SplitKind = SplitKind::I128;
            fn modulus() -> BigUint { ToBig::to_big(&<$t>::MODULUS) }
            fn enc_len() -> usize { <$t>::ENC_LEN }
            pf_common!($t);
            limbs4!($t);
            mulk_set_forms!();
            fn mul3(_a: Self) -> Self { unreachable!() }
            fn mul_small(a: Self, x: u32, form: u8) -> Self {
                if form % 2 == 0 { a.mul_small(x) } else { let mut r = a; r.set_mul_small(x); r }
            }
            fn invert(_a: Self) -> Self { unreachable!() }
            fn sqrt(a: Self) -> (Self, u32) { a.sqrt() }
            fn sqrt_ext(a: Self) -> (Self, u32) { a.sqrt_ext() }
            fn encode(a: Self) -> Vec<u8> {
                let e = a.encode();
                let e32 = a.encode32();
                assert!(e == e32, "encode != encode32");
                e.to_vec()
            }
            fn encode_ct(a: Self) -> Vec<u8> { a.encode().to_vec() }
            fn decode32(b: &[u8]) -> (Self, u32) { <$t>::decode32(b) }
            fn split_i128(a: Self) -> (i128, i128) { a.split_vartime() }
            fn split_bytes(_a: Self) -> (Vec<u8>, Vec<u8>) { unreachable!() }
        }
    };
}

/// ModInt256 instances. `named` = the alias has an inherent `encode()` defined by crrl.
macro_rules! impl_pf_modint {
    ($t:ty, $name:expr, $has_sqrt:expr, $named:tt, $prime:expr) => {
        impl PF for $t {
            const NAME: &'static str = $name;
            const NLIMBS: usize = 4;
            const RAW_UNREDUCED: bool = false;
            const HAS_MUL3: bool = true;
            const HAS_MUL_SMALL: bool = false;
            const HAS_SQRT: bool = $has_sqrt;
            const HAS_SQRT_EXT: bool = false;
            const HAS_DECODE32: bool = true;
            const HAS_INVERT: bool = false;
            const SPLIT: SplitKind = SplitKind::I128;
            const PRIME: bool = $prime;
            fn modulus() -> BigUint { ToBig::to_big(&<$t>::MODULUS) }
            fn enc_len() -> usize { <$t>::ENC_LEN }
            pf_common!($t);
            limbs4!($t);
            mulk_value_forms!();
            fn mul3(a: Self) -> Self { a.mul3() }
            fn mul_small(_a: Self, _x: u32, _form: u8) -> Self { unreachable!() }
            fn invert(_a: Self) -> Self { unreachable!() }
            fn sqrt(a: Self) -> (Self, u32) { a.sqrt() }
            fn sqrt_ext(_a: Self) -> (Self, u32) { unreachable!() }
            fn encode(a: Self) -> Vec<u8> {
                let e32 = a.encode32();
                impl_pf_modint!(@named $named, a, e32);
                // bytes beyond ENC_LEN must be zero (documented)
                assert!(e32[<$t>::ENC_LEN..].iter().all(|&x| x == 0), "encode32 padding not zero");
                e32[..<$t>::ENC_LEN].to_vec()
            }
            fn encode_ct(a: Self) -> Vec<u8> { a.encode32()[..<$t>::ENC_LEN].to_vec() }
            fn decode32(b: &[u8]) -> (Self, u32) { <$t>::decode32(b) }
            fn split_i128(a: Self) -> (i128, i128) { a.split_vartime() }
            fn split_bytes(_a: Self) -> (Vec<u8>, Vec<u8>) { unreachable!() }
        }
    };
    (@named true, $a:ident, $e32:ident) => {
        let e = $a.encode();
        assert!(e[..] == $e32[..e.len()], "encode != encode32");
    };
    (@named false, $a:ident, $e32:ident) => {};
}

/// dedicated w64 GF448: mul_small, sqrt, sqrt_ext, no split
#[allow(unused_macros)]
macro_rules! impl_pf_gf448_w64 {
    ($t:ty, $name:expr) => {
        impl PF for $t {
            const NAME: &'static str = $name;
            const NLIMBS: usize = 7;
            const RAW_UNREDUCED: bool = true;
            const HAS_MUL3: bool = false;
            const HAS_MUL_SMALL: bool = true;
            const HAS_SQRT: bool = true;
            const HAS_SQRT_EXT: bool = true;
            const HAS_DECODE32: bool = false;
            const HAS_INVERT: bool = false;
            no_split!();
            fn modulus() -> BigUint { ToBig::to_big(&<$t>::MODULUS) }
            fn enc_len() -> usize { <$t>::ENC_LEN }
            pf_common!($t);
            limbsn!($t, 7);
            mulk_set_forms!();
            fn mul3(_a: Self) -> Self { unreachable!() }
            fn mul_small(a: Self, x: u32, form: u8) -> Self {
                if form % 2 == 0 { a.mul_small(x) } else { let mut r = a; r.set_mul_small(x); r }
            }
            fn invert(_a: Self) -> Self { unreachable!() }
            fn sqrt(a: Self) -> (Self, u32) { a.sqrt() }
            fn sqrt_ext(a: Self) -> (Self, u32) { a.sqrt_ext() }
            fn encode(a: Self) -> Vec<u8> { a.encode().to_vec() }
            fn encode_ct(a: Self) -> Vec<u8> { a.encode().to_vec() }
            fn decode32(_b: &[u8]) -> (Self, u32) { unreachable!() }
        }
    };
}

/// dedicated w64 GFsecp256k1: mul3, sqrt, encode + encode32, decode32, no split
#[allow(unused_macros)]
macro_rules! impl_pf_secp_w64 {
    ($t:ty, $name:expr) => {
        impl PF for $t {
            const NAME: &'static str = $name;
            const NLIMBS: usize = 4;
            const RAW_UNREDUCED: bool = true;
            const HAS_MUL3: bool = true;
            const HAS_MUL_SMALL: bool = true; // mul_u16 / mul21 mapped here
            const HAS_SQRT: bool = true;
            const HAS_SQRT_EXT: bool = false;
            const HAS_DECODE32: bool = true;
            const HAS_INVERT: bool = false;
            no_split!();
            fn modulus() -> BigUint { ToBig::to_big(&<$t>::MODULUS) }
            fn enc_len() -> usize { <$t>::ENC_LEN }
            pf_common!($t);
            limbs4!($t);
            mulk_set_forms!();
            fn mul3(a: Self) -> Self { a.mul3() }
            /// x is reduced to 16 bits (mul_u16); x == 21 additionally goes through mul21
            fn mul_small(a: Self, x: u32, form: u8) -> Self {
                let x16 = x as u16;
                if x16 == 21 && form % 2 == 1 { return a.mul21(); }
                if form % 2 == 0 { a.mul_u16(x16) } else { let mut r = a; r.set_mul_u16(x16); r }
            }
            fn invert(_a: Self) -> Self { unreachable!() }
            fn sqrt(a: Self) -> (Self, u32) { a.sqrt() }
            fn sqrt_ext(_a: Self) -> (Self, u32) { unreachable!() }
            fn encode(a: Self) -> Vec<u8> {
                let e = a.encode();
                assert!(e == a.encode32(), "encode != encode32");
                e.to_vec()
            }
            fn encode_ct(a: Self) -> Vec<u8> { a.encode().to_vec() }
            fn decode32(b: &[u8]) -> (Self, u32) { <$t>::decode32(b) }
        }
    };
}

/// gfgen-defined types
macro_rules! impl_pf_gfgen {
    ($t:ty, $name:expr, $n:expr, $has_sqrt:expr, $split:expr) => {
        impl PF for $t {
            const NAME: &'static str = $name;
            const NLIMBS: usize = $n;
            const RAW_UNREDUCED: bool = false;
            const HAS_MUL3: bool = true;
            const HAS_MUL_SMALL: bool = true;
            const HAS_SQRT: bool = $has_sqrt;
            const HAS_SQRT_EXT: bool = $has_sqrt;
            const HAS_DECODE32: bool = false;
            const HAS_INVERT: bool = true;
            const SPLIT: SplitKind = $split;
            fn modulus() -> BigUint { ToBig::to_big(&<$t>::MODULUS) }
            fn enc_len() -> usize { <$t>::ENC_LEN }
            pf_common!($t);
            limbsn!($t, $n);
            mulk_value_forms!();
            fn mul3(a: Self) -> Self { a.mul3() }
            fn mul_small(a: Self, x: u32, form: u8) -> Self {
                if form % 2 == 0 { a.mul_small(x) } else { let mut r = a; r.set_mul_small(x); r }
            }
            fn invert(a: Self) -> Self { a.invert() }
            fn sqrt(a: Self) -> (Self, u32) { a.sqrt() }
            fn sqrt_ext(a: Self) -> (Self, u32) { a.sqrt_ext() }
            fn encode(a: Self) -> Vec<u8> { a.encode().to_vec() }
            fn encode_ct(a: Self) -> Vec<u8> { a.encode().to_vec() }
            fn decode32(_b: &[u8]) -> (Self, u32) { unreachable!() }
            fn split_i128(_a: Self) -> (i128, i128) { unreachable!() }
            fn split_bytes(a: Self) -> (Vec<u8>, Vec<u8>) {
                let (c0, c1) = a.split_vartime();
                (c0.to_vec(), c1.to_vec())
            }
        }
    };
}

// ---------------------------------------------------------------- instances

use crrl::backend::{GF255, ModInt256};
use crrl::field::{GF25519, GF255e, GF255s, GF448, GFp256, GFsecp256k1};

#[cfg(any(feature = "w32", feature = "m51"))]
const GF255_RAW: bool = false;
#[cfg(not(any(feature = "w32", feature = "m51")))]
const GF255_RAW: bool = true;

impl_pf_gf255!(GF25519, "GF25519", GF255_RAW, true);
impl_pf_gf255!(GF255e, "GF255e", GF255_RAW, true);
impl_pf_gf255!(GF255s, "GF255s", GF255_RAW, true);
pub type GF255_31 = GF255<31>; // q = 1 mod 8: no sqrt
pub type GF255_921 = GF255<921>; // q = 7 mod 8
pub type GF255_32715 = GF255<32715>; // q = 5 mod 8, MQ close to the documented maximum
impl_pf_gf255!(GF255_31, "GF255<31>", GF255_RAW, false);
impl_pf_gf255!(GF255_921, "GF255<921>", GF255_RAW, true);
impl_pf_gf255!(GF255_32715, "GF255<32715>", GF255_RAW, true);

pub type ScEd25519 = crrl::ed25519::Scalar;
pub type ScJq255e = crrl::jq255e::Scalar;
pub type ScJq255s = crrl::jq255s::Scalar;
pub type ScP256 = crrl::p256::Scalar;
pub type ScSecp256k1 = crrl::secp256k1::Scalar;
pub type ScGls254 = crrl::gls254::Scalar;
pub type ScEd448 = crrl::ed448::Scalar;

// q mod 8: p256 p = 7; L = 5; jq255e r = 5?; computed by selftest and cross-checked there.
impl_pf_modint!(GFp256, "GFp256", true, true, true);
impl_pf_modint!(ScEd25519, "ed25519::Scalar", true, true, true);
impl_pf_modint!(ScJq255e, "jq255e::Scalar", true, true, true);
impl_pf_modint!(ScJq255s, "jq255s::Scalar", true, true, true);
impl_pf_modint!(ScP256, "p256::Scalar", false, true, true);
impl_pf_modint!(ScSecp256k1, "secp256k1::Scalar", false, true, true);
impl_pf_modint!(ScGls254, "gls254::Scalar", true, true, true);

// Harness-defined moduli for the generic type
/// 194-bit prime 2^193 + 2^100 - 209  (short modulus: ENC_LEN = 25)
pub type MI194 = ModInt256<0xFFFFFFFFFFFFFF2F, 0x0000000FFFFFFFFF, 0x0000000000000000, 0x0000000000000002>;
/// P-224 field prime 2^224 - 2^96 + 1 (ENC_LEN = 28, q = 1 mod 8)
pub type MI224 = ModInt256<0x0000000000000001, 0xFFFFFFFF00000000, 0xFFFFFFFFFFFFFFFF, 0x00000000FFFFFFFF>;
/// 3*2^254 - 43 (between 1.73*2^253 and 1.73*2^255)
pub type MI3X254 = ModInt256<0xFFFFFFFFFFFFFFD5, 0xFFFFFFFFFFFFFFFF, 0xFFFFFFFFFFFFFFFF, 0xBFFFFFFFFFFFFFFF>;
/// secp256k1 field prime through the generic type (above 1.73*2^255)
pub type MISECP = ModInt256<0xFFFFFFFEFFFFFC2F, 0xFFFFFFFFFFFFFFFF, 0xFFFFFFFFFFFFFFFF, 0xFFFFFFFFFFFFFFFF>;
/// 2^255 - 19 through the generic type
pub type MI25519 = ModInt256<0xFFFFFFFFFFFFFFED, 0xFFFFFFFFFFFFFFFF, 0xFFFFFFFFFFFFFFFF, 0x7FFFFFFFFFFFFFFF>;
impl_pf_modint!(MI194, "ModInt256<2^193+2^100-209>", true, false, true);
impl_pf_modint!(MI224, "ModInt256<p224>", false, false, true);
impl_pf_modint!(MI3X254, "ModInt256<3*2^254-43>", true, false, true);
#[cfg(not(feature = "w32"))]
impl_pf_modint!(MISECP, "ModInt256<secp256k1 p>", true, false, true);
impl_pf_modint!(MI25519, "ModInt256<2^255-19>", true, false, true);

#[cfg(not(feature = "w32"))]
impl_pf_gf448_w64!(GF448, "GF448");
#[cfg(feature = "w32")]
impl_pf_gfgen!(GF448, "GF448", 7, true, SplitKind::Bytes);

#[cfg(not(feature = "w32"))]
impl_pf_secp_w64!(GFsecp256k1, "GFsecp256k1");
#[cfg(feature = "w32")]
impl_pf_modint!(GFsecp256k1, "GFsecp256k1", true, true, true);

impl_pf_gfgen!(ScEd448, "ed448::Scalar", 7, true, SplitKind::Bytes);

// harness-defined gfgen fields (w64 only: under w32 the macro refers to pub(crate) helpers and cannot be
// instantiated outside crrl)
#[cfg(not(feature = "w32"))]
pub mod gen_fields {
    use crrl::backend::define_gfgen;
    macro_rules! gf {
        ($ty:ident, $par:ident, $m:ident, $sq:expr, $n:expr, [$($l:expr),*]) => {
            pub struct $par;
            impl $par { pub const MODULUS: [u64; $n] = [$($l),*]; }
            define_gfgen!($ty, $par, $m, $sq);
        };
    }
    // 2^64 - 59 (5 mod 8)
    gf!(G64, G64P, g64m, false, 1, [0xFFFFFFFFFFFFFFC5]);
    // 2^61 - 1 (7 mod 8)
    gf!(G61, G61P, g61m, true, 1, [0x1FFFFFFFFFFFFFFF]);
    // 2^127 - 1 (7 mod 8)
    gf!(G127, G127P, g127m, false, 2, [0xFFFFFFFFFFFFFFFF, 0x7FFFFFFFFFFFFFFF]);
    // 2^128 - 159 (1 mod 8 : no sqrt)
    gf!(G128, G128P, g128m, true, 2, [0xFFFFFFFFFFFFFF61, 0xFFFFFFFFFFFFFFFF]);
    // P-192: 2^192 - 2^64 - 1 (7 mod 8)
    gf!(G192, G192P, g192m, false, 3, [0xFFFFFFFFFFFFFFFF, 0xFFFFFFFFFFFFFFFE, 0xFFFFFFFFFFFFFFFF]);
    // 2^255 - 19 through gfgen (5 mod 8)
    gf!(G255, G255P, g255m, true, 4, [0xFFFFFFFFFFFFFFED, 0xFFFFFFFFFFFFFFFF, 0xFFFFFFFFFFFFFFFF, 0x7FFFFFFFFFFFFFFF]);
    // secp256k1 p through gfgen (7 mod 8), N even and modulus close to 2^256
    gf!(G256, G256P, g256m, false, 4, [0xFFFFFFFEFFFFFC2F, 0xFFFFFFFFFFFFFFFF, 0xFFFFFFFFFFFFFFFF, 0xFFFFFFFFFFFFFFFF]);
    // 2^320 - 197 (3 mod 8)
    gf!(G320, G320P, g320m, true, 5, [0xFFFFFFFFFFFFFF3B, 0xFFFFFFFFFFFFFFFF, 0xFFFFFFFFFFFFFFFF, 0xFFFFFFFFFFFFFFFF, 0xFFFFFFFFFFFFFFFF]);
    // P-384 (7 mod 8)
    gf!(G384, G384P, g384m, false, 6, [0x00000000FFFFFFFF, 0xFFFFFFFF00000000, 0xFFFFFFFFFFFFFFFE, 0xFFFFFFFFFFFFFFFF, 0xFFFFFFFFFFFFFFFF, 0xFFFFFFFFFFFFFFFF]);
    // 2^511 - 187 (5 mod 8)
    gf!(G511, G511P, g511m, true, 8, [0xFFFFFFFFFFFFFF45, 0xFFFFFFFFFFFFFFFF, 0xFFFFFFFFFFFFFFFF, 0xFFFFFFFFFFFFFFFF, 0xFFFFFFFFFFFFFFFF, 0xFFFFFFFFFFFFFFFF, 0xFFFFFFFFFFFFFFFF, 0x7FFFFFFFFFFFFFFF]);
    // P-521: 2^521 - 1 (7 mod 8), modulus above 2^512: split_vartime documented as not implemented
    gf!(G521, G521P, g521m, false, 9, [0xFFFFFFFFFFFFFFFF, 0xFFFFFFFFFFFFFFFF, 0xFFFFFFFFFFFFFFFF, 0xFFFFFFFFFFFFFFFF, 0xFFFFFFFFFFFFFFFF, 0xFFFFFFFFFFFFFFFF, 0xFFFFFFFFFFFFFFFF, 0xFFFFFFFFFFFFFFFF, 0x00000000000001FF]);
}
#[cfg(not(feature = "w32"))]
pub use gen_fields::{G127, G128, G192, G255, G256, G320, G384, G511, G521, G61, G64};
#[cfg(not(feature = "w32"))]
impl_pf_gfgen!(G64, "gfgen<2^64-59>", 1, true, SplitKind::Bytes);
#[cfg(not(feature = "w32"))]
impl_pf_gfgen!(G61, "gfgen<2^61-1>", 1, true, SplitKind::Bytes);
#[cfg(not(feature = "w32"))]
impl_pf_gfgen!(G127, "gfgen<2^127-1>", 2, true, SplitKind::Bytes);
#[cfg(not(feature = "w32"))]
impl_pf_gfgen!(G128, "gfgen<2^128-159>", 2, false, SplitKind::Bytes);
#[cfg(not(feature = "w32"))]
impl_pf_gfgen!(G192, "gfgen<p192>", 3, true, SplitKind::Bytes);
#[cfg(not(feature = "w32"))]
impl_pf_gfgen!(G255, "gfgen<2^255-19>", 4, true, SplitKind::Bytes);
#[cfg(not(feature = "w32"))]
impl_pf_gfgen!(G256, "gfgen<secp256k1 p>", 4, true, SplitKind::Bytes);
#[cfg(not(feature = "w32"))]
impl_pf_gfgen!(G320, "gfgen<2^320-197>", 5, true, SplitKind::Bytes);
#[cfg(not(feature = "w32"))]
impl_pf_gfgen!(G384, "gfgen<p384>", 6, true, SplitKind::Bytes);
#[cfg(not(feature = "w32"))]
impl_pf_gfgen!(G511, "gfgen<2^511-187>", 8, true, SplitKind::Bytes);
#[cfg(not(feature = "w32"))]
impl_pf_gfgen!(G521, "gfgen<p521>", 9, true, SplitKind::None);

/// Invoke `$m!(Type)` for every prime-field type available in this configuration.
#[macro_export]
macro_rules! for_all_pf {
    ($m:ident) => {
        $m!($crate::fieldapi::t::GF25519);
        $m!($crate::fieldapi::t::GF255e);
        $m!($crate::fieldapi::t::GF255s);
        $m!($crate::fieldapi::t::GF255_31);
        $m!($crate::fieldapi::t::GF255_921);
        $m!($crate::fieldapi::t::GF255_32715);
        $m!($crate::fieldapi::t::GFp256);
        $m!($crate::fieldapi::t::GFsecp256k1);
        $m!($crate::fieldapi::t::GF448);
        $m!($crate::fieldapi::t::ScEd25519);
        $m!($crate::fieldapi::t::ScJq255e);
        $m!($crate::fieldapi::t::ScJq255s);
        $m!($crate::fieldapi::t::ScP256);
        $m!($crate::fieldapi::t::ScSecp256k1);
        $m!($crate::fieldapi::t::ScGls254);
        $m!($crate::fieldapi::t::ScEd448);
        $m!($crate::fieldapi::t::MI194);
        $m!($crate::fieldapi::t::MI224);
        $m!($crate::fieldapi::t::MI3X254);
        $m!($crate::fieldapi::t::MISECPX);
        $m!($crate::fieldapi::t::MI25519);
        $crate::for_all_gen_pf!($m);
    };
}

#[cfg(not(feature = "w32"))]
#[macro_export]
macro_rules! for_all_gen_pf {
    ($m:ident) => {
        $m!($crate::fieldapi::t::G64);
        $m!($crate::fieldapi::t::G61);
        $m!($crate::fieldapi::t::G127);
        $m!($crate::fieldapi::t::G128);
        $m!($crate::fieldapi::t::G192);
        $m!($crate::fieldapi::t::G255);
        $m!($crate::fieldapi::t::G256);
        $m!($crate::fieldapi::t::G320);
        $m!($crate::fieldapi::t::G384);
        $m!($crate::fieldapi::t::G511);
        $m!($crate::fieldapi::t::G521);
    };
}
#[cfg(feature = "w32")]
#[macro_export]
macro_rules! for_all_gen_pf {
    ($m:ident) => {};
}

/// Re-export of every instance under one path (used by `for_all_pf!`).
pub mod t {
    pub use super::{GF255_31, GF255_32715, GF255_921, MI194, MI224, MI25519, MI3X254};
    pub use super::{ScEd25519, ScEd448, ScGls254, ScJq255e, ScJq255s, ScP256, ScSecp256k1};
    #[cfg(not(feature = "w32"))]
    pub use super::{G127, G128, G192, G255, G256, G320, G384, G511, G521, G61, G64};
    pub use crrl::field::{GF25519, GF255e, GF255s, GF448, GFp256, GFsecp256k1};
    /// under w32, GFsecp256k1 *is* ModInt256<secp256k1 p>; use MI25519 as a stand-in to keep the list uniform
    #[cfg(not(feature = "w32"))]
    pub use super::MISECP as MISECPX;
    #[cfg(feature = "w32")]
    pub use super::MI25519 as MISECPX;
}
