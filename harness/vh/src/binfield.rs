//! Binary fields GFb127 / GFb254: generators and oracles shared by C01, C05, C12, C20.

use crate::engine::*;
use crrl::field::{GFb127, GFb254};
use proptest::prelude::*;
use refmodel::bf::{self, F254};
use serde::{Deserialize, Serialize};

#[derive(Clone, Debug, Hash, Serialize, Deserialize)]
pub struct B127Case {
    pub a: [u64; 2],
    pub b: [u64; 2],
    pub n: u32,
    pub form: u8,
}

#[derive(Clone, Debug, Hash, Serialize, Deserialize)]
pub struct B254Case {
    pub a: [u64; 4],
    pub b: [u64; 4],
    pub c: [u64; 2],
    pub n: u32,
    pub form: u8,
}

pub const B_CLASSES: &[&str] = &["uniform", "top_bit_set", "patterns", "sparse"];

fn limb_strategy(class: usize) -> BoxedStrategy<u64> {
    match B_CLASSES[class % B_CLASSES.len()] {
        "uniform" => any::<u64>().boxed(),
        "top_bit_set" => any::<u64>().prop_map(|x| x | (1 << 63)).boxed(),
        "patterns" => prop_oneof![
            3 => prop::sample::select(vec![0u64, 1, 2, 3, 1 << 63, (1 << 63) | 1, u64::MAX, u64::MAX >> 1, 1 << 62, (1u64 << 27) | 1, (1u64 << 54) | 1, 0x8000000000000001, 0xAAAAAAAAAAAAAAAA, 0x5555555555555555]),
            1 => any::<u64>()
        ]
        .boxed(),
        _ => (0u32..64, 0u32..64, any::<bool>()).prop_map(|(i, j, two)| if two { (1u64 << i) | (1u64 << j) } else { 1u64 << i }).boxed(),
    }
}

fn nsq() -> BoxedStrategy<u32> {
    prop_oneof![3 => 0u32..8, 1 => 8u32..300].boxed()
}

pub fn b127_strategy(class: usize) -> BoxedStrategy<B127Case> {
    (
        [limb_strategy(class), limb_strategy(class)],
        [limb_strategy(0), limb_strategy(class)],
        nsq(),
        any::<u8>(),
    )
        .prop_map(|(a, b, n, form)| B127Case { a, b, n, form })
        .boxed()
}

pub fn b254_strategy(class: usize) -> BoxedStrategy<B254Case> {
    (
        [limb_strategy(class), limb_strategy(class), limb_strategy(class), limb_strategy(class)],
        [limb_strategy(0), limb_strategy(class), limb_strategy(0), limb_strategy(class)],
        [limb_strategy(class), limb_strategy(class)],
        nsq(),
        any::<u8>(),
    )
        .prop_map(|(a, b, c, n, form)| B254Case { a, b, c, n, form })
        .boxed()
}

pub fn m127(l: &[u64; 2]) -> u128 {
    (l[0] as u128) | ((l[1] as u128) << 64)
}
pub fn e127(l: &[u64; 2]) -> GFb127 {
    GFb127::w64le(l[0], l[1])
}
pub fn m254(l: &[u64; 4]) -> F254 {
    F254(m127(&[l[0], l[1]]), m127(&[l[2], l[3]]))
}
pub fn e254(l: &[u64; 4], form: u8) -> GFb254 {
    match form % 3 {
        0 => GFb254::w64le(l[0], l[1], l[2], l[3]),
        1 => GFb254::b127(GFb127::w64le(l[0], l[1]), GFb127::w64le(l[2], l[3])),
        _ => GFb254::from_b127(GFb127::w64le(l[0], l[1]), GFb127::w64le(l[2], l[3])),
    }
}
pub fn enc127(x: u128) -> Vec<u8> {
    bf::red127(x).to_le_bytes().to_vec()
}

macro_rules! binop_forms {
    ($a:ident, $b:ident, $form:expr, $op:tt, $opa:tt) => {{
        match $form % 6 {
            0 => $a $op $b,
            1 => &$a $op &$b,
            2 => { let mut r = $a; r $opa $b; r }
            3 => { let mut r = $a; r $opa &$b; r }
            4 => $a $op &$b,
            _ => &$a $op $b,
        }
    }};
}

fn nt127(l: &[u64; 2]) -> bool {
    l[1] >> 63 != 0 || l[0] == 0 || l[1] == 0 || l[0] == u64::MAX
}

pub fn check_b127_arith(c: &B127Case) -> Outcome {
    let mut acc = Acc::new();
    let (a, b) = (e127(&c.a), e127(&c.b));
    let (ma, mb) = (m127(&c.a), m127(&c.b));
    let f = c.form;
    if nt127(&c.a) || nt127(&c.b) {
        acc.nt(true);
    }
    if c.a[1] >> 63 != 0 {
        acc.tag("b127_bit127_set");
    }
    let mut chk = |name: &'static str, got: Result<GFb127, String>, exp: u128| {
        let g = got.map(|x| x.encode().to_vec());
        let ok = g.as_ref().ok() == Some(&enc127(exp));
        acc.check(ok, || format!("C01:GFb127:{name}"), || format!("{name}: got {:?} expected {}", g.as_ref().map(|b| hex(b)), hex(&enc127(exp))));
    };
    chk("ctor", Ok(a), ma);
    chk("add", guard(|| binop_forms!(a, b, f, +, +=)), ma ^ mb);
    chk("sub", guard(|| binop_forms!(a, b, f, -, -=)), bf::red127(ma) ^ bf::red127(mb));
    chk("mul", guard(|| binop_forms!(a, b, f, *, *=)), bf::mul127(ma, mb));
    chk("neg", guard(|| if f & 1 == 0 { -a } else { -&a }), ma);
    chk("square", guard(|| if f & 1 == 0 { a.square() } else { let mut r = a; r.set_square(); r }), bf::sq127(ma));
    chk("xsquare", guard(|| a.xsquare(c.n)), {
        let mut x = bf::red127(ma);
        for _ in 0..c.n {
            x = bf::sq127(x);
        }
        x
    });
    chk("mul_sb", guard(|| if f & 1 == 0 { a.mul_sb() } else { let mut r = a; r.set_mul_sb(); r }), bf::mul127(ma, (1u128 << 27) | 1));
    chk("mul_b", guard(|| if f & 1 == 0 { a.mul_b() } else { let mut r = a; r.set_mul_b(); r }), bf::mul127(ma, (1u128 << 54) | 1));
    let zinv = bf::inv127(2);
    chk("div_z", guard(|| if f & 1 == 0 { a.div_z() } else { let mut r = a; r.set_div_z(); r }), bf::mul127(ma, zinv));
    chk("div_z2", guard(|| if f & 1 == 0 { a.div_z2() } else { let mut r = a; r.set_div_z2(); r }), bf::mul127(ma, bf::mul127(zinv, zinv)));
    // bit access (indices 0..=126 as documented): the generated index and the positions that the reduction z^127 = z^63 + 1
    // touches, on the constructed value and on a computed one (whose internal representation may be unreduced)
    let prod = guard(|| a * b);
    let mprod = bf::mul127(ma, mb);
    for k in [(c.n as usize) % 127, 0, 63, 64, 126] {
        chk("set_bit", guard(|| { let mut r = a; r.set_bit(k, (f as u32) | 2); r }), (bf::red127(ma) & !(1u128 << k)) | (((f & 1) as u128) << k));
        chk("xor_bit", guard(|| { let mut r = a; r.xor_bit(k, (f as u32) | 4); r }), bf::red127(ma) ^ (((f & 1) as u128) << k));
        if let Ok(p) = &prod {
            let p = *p;
            chk("set_bit", guard(|| { let mut r = p; r.set_bit(k, (f as u32) | 2); r }), (mprod & !(1u128 << k)) | (((f & 1) as u128) << k));
            chk("xor_bit", guard(|| { let mut r = p; r.xor_bit(k, (f as u32) | 4); r }), mprod ^ (((f & 1) as u128) << k));
        }
    }
    drop(chk);
    for k in [(c.n as usize) % 127, 0, 63, 64, 126] {
        let gb = guard(|| a.get_bit(k));
        acc.check(gb.as_ref().ok() == Some(&(((bf::red127(ma) >> k) & 1) as u32)), || "C01:GFb127:get_bit".into(), || format!("get_bit({k}) = {:?}", gb));
        if let Ok(p) = &prod {
            let p = *p;
            let gb = guard(|| p.get_bit(k));
            acc.check(gb.as_ref().ok() == Some(&(((mprod >> k) & 1) as u32)), || "C01:GFb127:get_bit".into(), || format!("get_bit({k}) of a product = {:?}", gb));
        }
    }
    acc.done()
}

pub fn check_b254_arith(c: &B254Case) -> Outcome {
    let mut acc = Acc::new();
    let f = c.form;
    let (a, b) = (e254(&c.a, f), e254(&c.b, f >> 2));
    let (ma, mb) = (m254(&c.a), m254(&c.b));
    let cc = e127(&c.c);
    let mc = m127(&c.c);
    if nt127(&[c.a[0], c.a[1]]) || nt127(&[c.a[2], c.a[3]]) || nt127(&[c.b[2], c.b[3]]) {
        acc.nt(true);
    }
    if c.a[1] >> 63 != 0 || c.a[3] >> 63 != 0 {
        acc.tag("b254_bit127_set");
    }
    let mut chk = |name: &'static str, got: Result<GFb254, String>, exp: F254| {
        let g = got.map(|x| x.encode().to_vec());
        let ok = g.as_ref().ok().map(|v| &v[..]) == Some(&exp.encode()[..]);
        acc.check(ok, || format!("C01:GFb254:{name}"), || format!("{name}: got {:?} expected {}", g.as_ref().map(|b| hex(b)), hex(&exp.encode())));
    };
    chk("ctor", Ok(a), ma);
    chk("add", guard(|| binop_forms!(a, b, f, +, +=)), ma.add(mb));
    chk("sub", guard(|| binop_forms!(a, b, f, -, -=)), ma.add(mb));
    chk("mul", guard(|| binop_forms!(a, b, f, *, *=)), ma.mul(mb));
    chk("neg", guard(|| if f & 1 == 0 { -a } else { -&a }), ma);
    chk("square", guard(|| if f & 1 == 0 { a.square() } else { let mut r = a; r.set_square(); r }), ma.sq());
    chk("xsquare", guard(|| a.xsquare(c.n)), ma.pow2k(c.n));
    chk("mul_b127", guard(|| if f & 1 == 0 { a.mul_b127(&cc) } else { let mut r = a; r.set_mul_b127(&cc); r }), ma.mul(F254(mc, 0)));
    chk("mul_u", guard(|| if f & 1 == 0 { a.mul_u() } else { let mut r = a; r.set_mul_u(); r }), ma.mul(F254::U));
    chk("mul_u1", guard(|| if f & 1 == 0 { a.mul_u1() } else { let mut r = a; r.set_mul_u1(); r }), ma.mul(F254(1, 1)));
    chk("mul_sb", guard(|| if f & 1 == 0 { a.mul_sb() } else { let mut r = a; r.set_mul_sb(); r }), ma.mul(F254((1u128 << 27) | 1, 0)));
    chk("mul_b", guard(|| if f & 1 == 0 { a.mul_b() } else { let mut r = a; r.set_mul_b(); r }), ma.mul(F254((1u128 << 54) | 1, 0)));
    let zinv = F254(bf::inv127(2), 0);
    chk("div_z", guard(|| if f & 1 == 0 { a.div_z() } else { let mut r = a; r.set_div_z(); r }), ma.mul(zinv));
    chk("div_z2", guard(|| if f & 1 == 0 { a.div_z2() } else { let mut r = a; r.set_div_z2(); r }), ma.mul(zinv).mul(zinv));
    // to_components / from components round trip
    chk("components", guard(|| { let (x0, x1) = a.to_components(); GFb254::from_b127(x0, x1) }), ma);
    drop(chk);
    // mul_selfphi: a * a^(2^127) in GF(2^127)
    let sp = guard(|| a.mul_selfphi().encode().to_vec());
    let exp = ma.mul(ma.pow2k(127));
    acc.check(
        exp.1 == 0 && sp.as_ref().ok() == Some(&enc127(exp.0)),
        || "C01:GFb254:mul_selfphi".into(),
        || format!("mul_selfphi: got {:?} expected {}", sp.as_ref().map(|b| hex(b)), hex(&enc127(exp.0))),
    );
    acc.done()
}
