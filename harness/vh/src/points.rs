//! Group adapter (stub; filled in with the curve work).
use crate::engine::*;
use proptest::prelude::*;
use serde::{Deserialize, Serialize};

#[derive(Clone, Debug, Hash, Serialize, Deserialize)]
pub struct SelCase {
    pub g: u8,
}
pub const GROUP_NAMES: &[&str] = &[];
pub fn sel_strategy(g: usize) -> BoxedStrategy<SelCase> {
    Just(SelCase { g: g as u8 }).boxed()
}
pub fn check_sel(_c: &SelCase) -> Outcome {
    Outcome::pass(false)
}
