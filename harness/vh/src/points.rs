//! Uniform adapter over the nine groups of crrl + point sources shared by C03, C04, C06, C10, C20.

#![allow(non_snake_case)]

use crate::engine::*;
use crate::fieldapi::PF;
use num_bigint::BigUint;
use num_traits::Zero;
use proptest::prelude::*;
use refmodel::curves::{self, Pt, RefGroup};
use refmodel::pf;
use serde::{Deserialize, Serialize};
use std::sync::OnceLock;

pub const GROUP_NAMES: &[&str] = &["ed25519", "ed448", "p256", "secp256k1", "jq255e", "jq255s", "gls254", "ristretto255", "decaf448"];
pub const NGROUPS: usize = 9;

pub fn is_edwards(g: usize) -> bool {
    g < 2
}
pub fn is_weierstrass(g: usize) -> bool {
    g == 2 || g == 3
}
pub fn is_quotient(g: usize) -> bool {
    g == 7 || g == 8
}

pub struct Refs {
    pub groups: Vec<Box<dyn RefGroup>>,
    pub ed25519: curves::Edwards,
    pub ed448: curves::Edwards,
    pub p256: curves::Weierstrass,
    pub secp256k1: curves::Weierstrass,
    pub r255: curves::Ristretto255,
    pub d448: curves::Decaf448,
    /// low-order points of the two Edwards curves (index 0 = neutral)
    pub torsion: [Vec<Pt>; 2],
}

pub fn refs() -> &'static Refs {
    static R: OnceLock<Refs> = OnceLock::new();
    R.get_or_init(|| {
        let e1 = curves::ed25519();
        let e2 = curves::ed448();
        let t1 = e1.torsion_points();
        let t2 = e2.torsion_points();
        Refs {
            groups: vec![
                Box::new(curves::ed25519()),
                Box::new(curves::ed448()),
                Box::new(curves::p256()),
                Box::new(curves::secp256k1()),
                Box::new(curves::jq255e()),
                Box::new(curves::jq255s()),
                Box::new(curves::gls254()),
                Box::new(curves::ristretto255()),
                Box::new(curves::decaf448()),
            ],
            ed25519: e1,
            ed448: e2,
            p256: curves::p256(),
            secp256k1: curves::secp256k1(),
            r255: curves::ristretto255(),
            d448: curves::decaf448(),
            torsion: [t1, t2],
        }
    })
}

pub fn rg(g: usize) -> &'static dyn RefGroup {
    &*refs().groups[g]
}

// ------------------------------------------------------------------ adapter

pub trait Grp: Copy + Send + Sync + 'static {
    type S: PF;
    const G: usize;
    fn neutral() -> Self;
    fn base() -> Self;
    /// form 0 = decode(), 1 = set_decode() on a non-neutral instance (status must be all-ones / zero, failure leaves the neutral)
    fn decode(b: &[u8], form: u8) -> Result<Option<Self>, String>;
    fn encode(self) -> Vec<u8>;
    fn add(a: Self, b: Self, form: u8) -> Self;
    fn sub(a: Self, b: Self, form: u8) -> Self;
    fn neg(a: Self, form: u8) -> Self;
    fn double(a: Self, form: u8) -> Self;
    fn xdouble(a: Self, n: u32, form: u8) -> Self;
    fn mul_small(a: Self, n: u64, form: u8) -> Self;
    fn equals(a: Self, b: Self) -> u32;
    fn isneutral(a: Self) -> u32;
    fn mul(a: Self, s: &Self::S, form: u8) -> Self;
    fn mulgen(s: &Self::S, form: u8) -> Self;
    fn set_cond(a: &mut Self, b: &Self, ctl: u32);
    fn select(a: &Self, b: &Self, ctl: u32) -> Self;
    fn set_condneg(a: &mut Self, ctl: u32);
    fn mul_add_mulgen_vartime(a: Self, u: &Self::S, v: &Self::S, form: u8) -> Self;
}

macro_rules! grp_common {
    ($P:ty, $S:ty) => {
        fn neutral() -> Self { <$P>::NEUTRAL }
        fn base() -> Self { <$P>::BASE }
        fn decode(b: &[u8], form: u8) -> Result<Option<Self>, String> {
            if form % 2 == 0 {
                Ok(<$P>::decode(b))
            } else {
                let mut p = <$P>::BASE;
                let s = p.set_decode(b);
                if s == 0xFFFFFFFF {
                    Ok(Some(p))
                } else if s == 0 {
                    if p.isneutral() != 0xFFFFFFFF {
                        return Err("set_decode failed but did not leave the neutral".into());
                    }
                    Ok(None)
                } else {
                    Err(format!("set_decode status {s:08x}"))
                }
            }
        }
        fn add(a: Self, b: Self, form: u8) -> Self {
            match form % 6 { 0 => a + b, 1 => &a + &b, 2 => { let mut r = a; r += b; r } 3 => { let mut r = a; r += &b; r } 4 => a + &b, _ => &a + b }
        }
        fn sub(a: Self, b: Self, form: u8) -> Self {
            match form % 6 { 0 => a - b, 1 => &a - &b, 2 => { let mut r = a; r -= b; r } 3 => { let mut r = a; r -= &b; r } 4 => a - &b, _ => &a - b }
        }
        fn neg(a: Self, form: u8) -> Self {
            match form % 3 { 0 => -a, 1 => -&a, _ => { let mut r = a; r.set_neg(); r } }
        }
        fn double(a: Self, form: u8) -> Self {
            match form % 2 { 0 => a.double(), _ => { let mut r = a; r.set_double(); r } }
        }
        fn xdouble(a: Self, n: u32, form: u8) -> Self {
            match form % 2 { 0 => a.xdouble(n), _ => { let mut r = a; r.set_xdouble(n); r } }
        }
        fn equals(a: Self, b: Self) -> u32 { a.equals(b) }
        fn isneutral(a: Self) -> u32 { a.isneutral() }
        fn mul(a: Self, s: &$S, form: u8) -> Self {
            match form % 6 { 0 => a * s, 1 => a * *s, 2 => s * a, 3 => *s * &a, 4 => { let mut r = a; r *= s; r } _ => &a * s }
        }
        fn set_cond(a: &mut Self, b: &Self, ctl: u32) { a.set_cond(b, ctl) }
        fn select(a: &Self, b: &Self, ctl: u32) -> Self { <$P>::select(a, b, ctl) }
        fn set_condneg(a: &mut Self, ctl: u32) { a.set_condneg(ctl) }
    };
}

macro_rules! grp_mul_small_set {
    () => {
        fn mul_small(a: Self, n: u64, form: u8) -> Self {
            match form % 4 { 0 => a * n, 1 => n * a, 2 => { let mut r = a; r.set_mul_small(n); r } _ => { let mut r = a; r *= n; r } }
        }
    };
}
macro_rules! grp_mul_small_ops {
    () => {
        fn mul_small(a: Self, n: u64, form: u8) -> Self {
            match form % 4 { 0 => a * n, 1 => n * a, 2 => n * &a, _ => { let mut r = a; r *= n; r } }
        }
    };
}
macro_rules! grp_mulgen_set {
    ($P:ty) => {
        fn mulgen(s: &Self::S, form: u8) -> Self {
            match form % 4 { 0 => <$P>::mulgen(s), 1 => { let mut r = <$P>::NEUTRAL; r.set_mulgen(s); r } 2 => <$P>::BASE * s, _ => { // in place on a receiver that already holds a point: the previous value must not matter
                let mut r = <$P>::BASE + <$P>::BASE; r.set_mulgen(s); r } }
        }
    };
}
macro_rules! grp_mamv_set {
    () => {
        fn mul_add_mulgen_vartime(a: Self, u: &Self::S, v: &Self::S, form: u8) -> Self {
            match form % 2 { 0 => a.mul_add_mulgen_vartime(u, v), _ => { let mut r = a; r.set_mul_add_mulgen_vartime(u, v); r } }
        }
    };
}
macro_rules! grp_mamv_val {
    () => {
        fn mul_add_mulgen_vartime(a: Self, u: &Self::S, v: &Self::S, _form: u8) -> Self {
            a.mul_add_mulgen_vartime(u, v)
        }
    };
}

macro_rules! impl_grp {
    ($P:ty, $S:ty, $g:expr, enc = $enc:ident, $ms:ident, $mamv:ident) => {
        impl Grp for $P {
            type S = $S;
            const G: usize = $g;
            grp_common!($P, $S);
            fn encode(self) -> Vec<u8> { self.$enc().to_vec() }
            $ms!();
            grp_mulgen_set!($P);
            $mamv!();
        }
    };
}

impl_grp!(crrl::ed25519::Point, crrl::ed25519::Scalar, 0, enc = encode, grp_mul_small_set, grp_mamv_set);
impl_grp!(crrl::ed448::Point, crrl::ed448::Scalar, 1, enc = encode, grp_mul_small_set, grp_mamv_set);
impl_grp!(crrl::p256::Point, crrl::p256::Scalar, 2, enc = encode_compressed, grp_mul_small_set, grp_mamv_set);
impl_grp!(crrl::secp256k1::Point, crrl::secp256k1::Scalar, 3, enc = encode_compressed, grp_mul_small_set, grp_mamv_set);
impl_grp!(crrl::jq255e::Point, crrl::jq255e::Scalar, 4, enc = encode, grp_mul_small_set, grp_mamv_set);
impl_grp!(crrl::jq255s::Point, crrl::jq255s::Scalar, 5, enc = encode, grp_mul_small_set, grp_mamv_set);
impl_grp!(crrl::gls254::Point, crrl::gls254::Scalar, 6, enc = encode, grp_mul_small_set, grp_mamv_set);
impl_grp!(crrl::ristretto255::Point, crrl::ristretto255::Scalar, 7, enc = encode, grp_mul_small_ops, grp_mamv_val);
impl_grp!(crrl::decaf448::Point, crrl::decaf448::Scalar, 8, enc = encode, grp_mul_small_ops, grp_mamv_val);

/// Dispatch a generic function over the group index.
#[macro_export]
macro_rules! with_group {
    ($g:expr, $f:ident ( $($a:expr),* )) => {
        match $g {
            0 => $f::<crrl::ed25519::Point>($($a),*),
            1 => $f::<crrl::ed448::Point>($($a),*),
            2 => $f::<crrl::p256::Point>($($a),*),
            3 => $f::<crrl::secp256k1::Point>($($a),*),
            4 => $f::<crrl::jq255e::Point>($($a),*),
            5 => $f::<crrl::jq255s::Point>($($a),*),
            6 => $f::<crrl::gls254::Point>($($a),*),
            7 => $f::<crrl::ristretto255::Point>($($a),*),
            _ => $f::<crrl::decaf448::Point>($($a),*),
        }
    };
}

pub fn scalar_of<G: Grp>(k: &BigUint) -> G::S {
    let n = <G::S as PF>::modulus();
    let kb = pf::to_le(&(k % &n), <G::S as PF>::enc_len());
    <G::S as PF>::decode_reduce(&kb, 0)
}

// ------------------------------------------------------------------ point sources

/// How a point is obtained through the public API (all inputs are bytes / integers).
#[derive(Clone, Debug, Hash, Serialize, Deserialize, PartialEq, Eq)]
pub enum PSrc {
    Neutral,
    Base,
    /// k*B for a small signed k, through mul_small and negation
    Small(i32),
    /// decode of a valid encoding (produced on the reference side)
    Enc(Vec<u8>),
    /// Edwards only: the low-order point of index i (decoded from its encoding)
    Torsion(u8),
    /// Edwards only: decode(enc) + torsion point i
    Mixed(Vec<u8>, u8),
    /// Weierstrass only: from_projective(lambda*x, lambda*y, lambda) of the decoded point (lambda != 0)
    Proj(Vec<u8>, Vec<u8>),
    /// Weierstrass only: the neutral given as (X : Y : 0)
    ProjInf(Vec<u8>, Vec<u8>),
    /// ristretto255 / decaf448: one_way_map of 64 / 112 bytes
    Map(Vec<u8>),
    /// jq255e / jq255s / gls254: hash_to_curve("", data)
    Hash(Vec<u8>),
    /// ristretto255 / decaf448 with hooks: the representative of decode(enc) shifted by the i-th admissible torsion point
    Rep(Vec<u8>, u8),
}

#[derive(Clone, Debug, Hash, Serialize, Deserialize, PartialEq, Eq)]
pub struct PV {
    pub src: PSrc,
    /// (op, operand): 0 add, 1 sub, 2 double, 3 neg, 4 xdouble(3), 5 mul_small(3), 6 add self
    pub chain: Vec<(u8, PSrc)>,
}

pub const NPCHAIN: u8 = 7;

fn tors_index(g: usize, i: u8) -> usize {
    (i as usize) % refs().torsion[g].len()
}

pub fn build_src<G: Grp>(s: &PSrc) -> G {
    let g = G::G;
    match s {
        PSrc::Neutral => G::neutral(),
        PSrc::Base => G::base(),
        PSrc::Small(k) => {
            let p = G::mul_small(G::base(), k.unsigned_abs() as u64, 0);
            if *k < 0 { G::neg(p, 0) } else { p }
        }
        PSrc::Enc(b) => G::decode(b, 0).ok().flatten().expect("generator produced an encoding that crrl rejects (reported by C06)"),
        PSrc::Torsion(i) => {
            let t = &refs().torsion[g][tors_index(g, *i)];
            G::decode(&rg(g).encode(t), 0).ok().flatten().expect("torsion point must decode")
        }
        PSrc::Mixed(b, i) => {
            let a: G = build_src(&PSrc::Enc(b.clone()));
            let t: G = build_src(&PSrc::Torsion(*i));
            G::add(a, t, 0)
        }
        PSrc::Proj(b, lam) => build_proj::<G>(b, lam, false),
        PSrc::ProjInf(x, y) => build_proj::<G>(x, y, true),
        PSrc::Map(b) => build_map::<G>(b),
        PSrc::Hash(d) => build_hash::<G>(d),
        PSrc::Rep(b, i) => build_rep::<G>(b, *i),
    }
}

fn build_proj<G: Grp>(a: &[u8], b: &[u8], inf: bool) -> G {
    use std::any::Any;
    let out: Box<dyn Any> = match G::G {
        2 => {
            use crrl::field::GFp256 as F;
            use crrl::p256::Point as P;
            if inf {
                let (x, y) = (F::decode_reduce(a), F::decode_reduce(b));
                Box::new(P::from_projective(x, y, F::ZERO).expect("(X:Y:0) must be accepted as the neutral"))
            } else {
                let p = P::decode(a).unwrap();
                let (x, y, _) = p.to_affine();
                let mut l = F::decode_reduce(b);
                if l.iszero() != 0 { l = F::ONE; }
                Box::new(P::from_projective(x * l, y * l, l).expect("scaled projective coordinates must be accepted"))
            }
        }
        3 => {
            use crrl::field::GFsecp256k1 as F;
            use crrl::secp256k1::Point as P;
            if inf {
                let (x, y) = (F::decode_reduce(a), F::decode_reduce(b));
                Box::new(P::from_projective(x, y, F::ZERO).expect("(X:Y:0) must be accepted as the neutral"))
            } else {
                let p = P::decode(a).unwrap();
                let (x, y, _) = p.to_affine();
                let mut l = F::decode_reduce(b);
                if l.iszero() != 0 { l = F::ONE; }
                Box::new(P::from_projective(x * l, y * l, l).expect("scaled projective coordinates must be accepted"))
            }
        }
        _ => panic!("Proj source on a non-Weierstrass group"),
    };
    *out.downcast::<G>().ok().expect("type mismatch")
}

fn build_map<G: Grp>(b: &[u8]) -> G {
    use std::any::Any;
    let out: Box<dyn Any> = match G::G {
        7 => Box::new(crrl::ristretto255::Point::one_way_map(b)),
        8 => Box::new(crrl::decaf448::Point::one_way_map(b)),
        _ => panic!("Map source on a group without one_way_map"),
    };
    *out.downcast::<G>().ok().expect("type mismatch")
}

fn build_hash<G: Grp>(d: &[u8]) -> G {
    use std::any::Any;
    let out: Box<dyn Any> = match G::G {
        4 => Box::new(crrl::jq255e::Point::hash_to_curve("", d)),
        5 => Box::new(crrl::jq255s::Point::hash_to_curve("", d)),
        6 => Box::new(crrl::gls254::Point::hash_to_curve("", d)),
        _ => panic!("Hash source on a group without hash_to_curve"),
    };
    *out.downcast::<G>().ok().expect("type mismatch")
}

#[cfg(feature = "hooks")]
fn build_rep<G: Grp>(b: &[u8], i: u8) -> G {
    use std::any::Any;
    let out: Box<dyn Any> = match G::G {
        7 => {
            // admissible shifts: the 4-torsion subgroup (doubles of the 8-torsion points)
            let inner = crrl::ristretto255::Point::decode(b).unwrap().verif_inner();
            let t8: crrl::ed25519::Point = build_src(&PSrc::Torsion(i));
            Box::new(crrl::ristretto255::Point::verif_from_inner(inner + t8.double()))
        }
        8 => {
            let inner = crrl::decaf448::Point::decode(b).unwrap().verif_inner();
            let t4: crrl::ed448::Point = build_src(&PSrc::Torsion(i));
            Box::new(crrl::decaf448::Point::verif_from_inner(inner + t4.double()))
        }
        _ => panic!("Rep source on a non-quotient group"),
    };
    *out.downcast::<G>().ok().expect("type mismatch")
}
#[cfg(not(feature = "hooks"))]
fn build_rep<G: Grp>(b: &[u8], _i: u8) -> G {
    build_src(&PSrc::Enc(b.to_vec()))
}

fn apply_chain<G: Grp>(x: G, op: u8, y: G) -> G {
    match op % NPCHAIN {
        0 => G::add(x, y, 0),
        1 => G::sub(x, y, 0),
        2 => G::double(x, 0),
        3 => G::neg(x, 0),
        4 => G::xdouble(x, 3, 0),
        5 => G::mul_small(x, 3, 0),
        _ => G::add(x, x, 0),
    }
}

pub fn build_pv<G: Grp>(v: &PV) -> G {
    let mut x: G = build_src(&v.src);
    for (op, s) in &v.chain {
        let y: G = build_src(s);
        x = apply_chain(x, *op, y);
    }
    x
}

/// reference value of a source. For the quotient groups the value is a representative of the element.
pub fn ref_src(g: usize, s: &PSrc) -> Pt {
    let r = rg(g);
    match s {
        PSrc::Neutral => r.neutral(),
        PSrc::Base => r.base(),
        PSrc::Small(k) => {
            let p = r.mul(&BigUint::from(k.unsigned_abs()), &r.base());
            if *k < 0 { r.neg(&p) } else { p }
        }
        PSrc::Enc(b) | PSrc::Proj(b, _) | PSrc::Rep(b, _) => r.decode(b).expect("reference rejects a generated encoding"),
        PSrc::ProjInf(_, _) => Pt::Inf,
        PSrc::Torsion(i) => refs().torsion[g][tors_index(g, *i)].clone(),
        PSrc::Mixed(b, i) => r.add(&r.decode(b).unwrap(), &refs().torsion[g][tors_index(g, *i)]),
        PSrc::Map(b) => {
            if g == 7 { refs().r255.one_way_map(b) } else { refs().d448.one_way_map(b) }
        }
        // hash_to_curve has no independent reference here: the point is taken from crrl's output, which is first
        // required to be a valid element (decodable by the reference)
        PSrc::Hash(d) => {
            let enc = match g {
                4 => crrl::jq255e::Point::hash_to_curve("", d).encode().to_vec(),
                5 => crrl::jq255s::Point::hash_to_curve("", d).encode().to_vec(),
                _ => crrl::gls254::Point::hash_to_curve("", d).encode().to_vec(),
            };
            r.decode(&enc).expect("hash_to_curve output is not a valid element")
        }
    }
}

pub fn ref_pv(g: usize, v: &PV) -> Pt {
    let r = rg(g);
    let mut x = ref_src(g, &v.src);
    for (op, s) in &v.chain {
        let y = ref_src(g, s);
        x = match op % NPCHAIN {
            0 => r.add(&x, &y),
            1 => r.sub(&x, &y),
            2 => r.double(&x),
            3 => r.neg(&x),
            4 => r.double(&r.double(&r.double(&x))),
            5 => r.add(&r.double(&x), &x),
            _ => r.add(&x, &x),
        };
    }
    x
}

// ------------------------------------------------------------------ generators

/// a valid encoding of a (close to) uniform element, sampled on the reference side
pub fn enc_strategy(g: usize) -> BoxedStrategy<Vec<u8>> {
    let r = rg(g);
    let len = r.enc_len();
    match g {
        0 | 1 => {
            // random y, first y' >= y on the curve, random sign
            (prop::collection::vec(any::<u8>(), len), any::<bool>())
                .prop_map(move |(raw, sign)| {
                    let e = if g == 0 { &refs().ed25519 } else { &refs().ed448 };
                    let mut y = pf::from_le(&raw) % &e.p;
                    loop {
                        if let Some(x) = e.recover_x(&y, sign && !y.is_zero()) {
                            if !(x.is_zero() && sign) {
                                return e.encode(&Pt::A(x, y));
                            }
                        }
                        y = (y + 1u32) % &e.p;
                    }
                })
                .boxed()
        }
        2 | 3 => (prop::collection::vec(any::<u8>(), 32), any::<bool>())
            .prop_map(move |(raw, odd)| {
                let w = if g == 2 { &refs().p256 } else { &refs().secp256k1 };
                let mut x = pf::from_le(&raw) % &w.p;
                loop {
                    if let Some(p) = w.lift_x(&x, odd) {
                        return w.encode(&p);
                    }
                    x = (x + 1u32) % &w.p;
                }
            })
            .boxed(),
        4 | 5 | 6 => prop::collection::vec(any::<u8>(), 32)
            .prop_map(move |mut raw| {
                let r = rg(g);
                raw[31] &= 0x7F;
                if g == 6 {
                    raw[15] &= 0x7F;
                }
                loop {
                    if let Some(p) = r.decode(&raw) {
                        return r.encode(&p);
                    }
                    // next candidate
                    for b in raw.iter_mut() {
                        *b = b.wrapping_add(1);
                        if *b != 0 {
                            break;
                        }
                    }
                    raw[31] &= 0x7F;
                    if g == 6 {
                        raw[15] &= 0x7F;
                    }
                }
            })
            .boxed(),
        _ => {
            // ristretto255 / decaf448: double of a curve point is in the even subgroup
            (prop::collection::vec(any::<u8>(), len + 1), any::<bool>())
                .prop_map(move |(raw, sign)| {
                    let (e, r): (&curves::Edwards, &dyn RefGroup) = if g == 7 { (&refs().r255.e, &refs().r255) } else { (&refs().d448.e, &refs().d448) };
                    let mut y = pf::from_le(&raw) % &e.p;
                    loop {
                        if let Some(x) = e.recover_x(&y, sign) {
                            let p = Pt::A(x, y.clone());
                            return r.encode(&e.add(&p, &p));
                        }
                        y = (y + 1u32) % &e.p;
                    }
                })
                .boxed()
        }
    }
}

/// valid encodings of elements with a small (or small negative) coordinate: x = 0, 1, 2, ... on the Weierstrass
/// curves, small y on the Edwards curves, small u / w / s on the other groups (sampled on the reference side)
pub fn small_coord_encodings(g: usize) -> &'static Vec<Vec<u8>> {
    static T: OnceLock<Vec<OnceLock<Vec<Vec<u8>>>>> = OnceLock::new();
    let t = T.get_or_init(|| (0..NGROUPS).map(|_| OnceLock::new()).collect());
    t[g].get_or_init(|| {
        let r = rg(g);
        let len = r.enc_len();
        let mut out: Vec<Vec<u8>> = Vec::new();
        let mut push = |e: Vec<u8>| {
            if let Some(p) = r.decode(&e) {
                if !r.is_neutral(&p) {
                    let c = r.encode(&p);
                    if !out.contains(&c) {
                        out.push(c);
                    }
                }
            }
        };
        for c in 0u32..24 {
            match g {
                0 | 1 | 4 | 5 | 7 | 8 => {
                    let q = match g { 0 | 7 => refs().ed25519.p.clone(), 1 | 8 => refs().ed448.p.clone(), 4 => (BigUint::from(1u32) << 255) - 18651u32, _ => (BigUint::from(1u32) << 255) - 3957u32 };
                    for v in [BigUint::from(c), &q - 1u32 - c] {
                        let mut e = pf::to_le(&v, len);
                        push(e.clone());
                        if is_edwards(g) {
                            e[len - 1] |= 0x80;
                            push(e);
                        }
                    }
                }
                2 | 3 => {
                    let q = if g == 2 { refs().p256.p.clone() } else { refs().secp256k1.p.clone() };
                    for v in [BigUint::from(c), &q - 1u32 - c] {
                        for pre in [2u8, 3] {
                            let mut e = vec![pre];
                            e.extend(pf::to_be(&v, 32));
                            push(e);
                        }
                    }
                }
                _ => {
                    let mut e = vec![0u8; 32];
                    e[0] = c as u8;
                    push(e.clone());
                    e[16] = 1;
                    push(e.clone());
                    e[0] = 0;
                    e[16] = c as u8;
                    push(e);
                }
            }
        }
        out
    })
}

pub const PSRC_CLASSES: &[&str] = &["neutral", "base", "small", "uniform", "special"];

/// point source of a given class; "special" is the group-specific family (torsion / mixed-order, scaled projective,
/// map outputs, shifted representatives)
pub fn psrc_strategy(g: usize, class: usize) -> BoxedStrategy<PSrc> {
    match PSRC_CLASSES[class % PSRC_CLASSES.len()] {
        "neutral" => {
            if is_weierstrass(g) {
                // (X:Y:0) for arbitrary and for boundary X, Y ((0:0:0), (0:1:0), (1:0:0), ...): all are documented as the point at infinity
                let coord = || prop_oneof![2 => prop::collection::vec(any::<u8>(), 32), 1 => Just(vec![0u8; 32]), 1 => Just({ let mut v = vec![0u8; 32]; v[0] = 1; v })];
                prop_oneof![Just(PSrc::Neutral), (coord(), coord()).prop_map(|(x, y)| PSrc::ProjInf(x, y))].boxed()
            } else {
                Just(PSrc::Neutral).boxed()
            }
        }
        "base" => prop_oneof![Just(PSrc::Base), Just(PSrc::Small(1)), Just(PSrc::Small(-1))].boxed(),
        "small" => (-40i32..=40).prop_map(PSrc::Small).boxed(),
        "uniform" => enc_strategy(g).prop_map(PSrc::Enc).boxed(),
        _ => match g {
            0 | 1 => prop_oneof![
                1 => any::<u8>().prop_map(PSrc::Torsion),
                2 => (enc_strategy(g), any::<u8>()).prop_map(|(e, i)| PSrc::Mixed(e, i)),
                1 => prop::sample::select(small_coord_encodings(g).clone()).prop_map(PSrc::Enc),
            ]
            .boxed(),
            2 | 3 => prop_oneof![
                2 => (enc_strategy(g), prop::collection::vec(any::<u8>(), 32)).prop_map(|(e, l)| PSrc::Proj(e, l)),
                1 => prop::sample::select(small_coord_encodings(g).clone()).prop_map(PSrc::Enc),
                1 => (prop::sample::select(small_coord_encodings(g).clone()), prop::collection::vec(any::<u8>(), 32)).prop_map(|(e, l)| PSrc::Proj(e, l)),
            ]
            .boxed(),
            4 | 5 | 6 => prop_oneof![
                2 => prop::collection::vec(any::<u8>(), 0..40).prop_map(PSrc::Hash),
                1 => prop::sample::select(small_coord_encodings(g).clone()).prop_map(PSrc::Enc),
            ]
            .boxed(),
            _ => {
                let n = if g == 7 { 64 } else { 112 };
                prop_oneof![
                    2 => prop::collection::vec(any::<u8>(), n).prop_map(PSrc::Map),
                    2 => (enc_strategy(g), any::<u8>()).prop_map(|(e, i)| PSrc::Rep(e, i)),
                    1 => any::<u8>().prop_map(move |i| PSrc::Rep(vec![0u8; if g == 7 { 32 } else { 56 }], i)),
                    1 => prop::sample::select(small_coord_encodings(g).clone()).prop_map(PSrc::Enc),
                ]
                .boxed()
            }
        },
    }
}

pub fn any_psrc(g: usize) -> BoxedStrategy<PSrc> {
    (0..PSRC_CLASSES.len()).prop_flat_map(move |c| psrc_strategy(g, c)).boxed()
}

pub fn pv_strategy(g: usize, class: usize, chain: bool) -> BoxedStrategy<PV> {
    if !chain {
        return psrc_strategy(g, class).prop_map(|src| PV { src, chain: vec![] }).boxed();
    }
    (psrc_strategy(g, class), prop::collection::vec((0u8..NPCHAIN, any_psrc(g)), 1..4)).prop_map(|(src, chain)| PV { src, chain }).boxed()
}

pub fn any_pv(g: usize) -> BoxedStrategy<PV> {
    (0..PSRC_CLASSES.len(), prop::bool::weighted(0.35)).prop_flat_map(move |(c, ch)| pv_strategy(g, c, ch)).boxed()
}

/// scalar strategy for a group (integer below the group order, structured classes)
pub fn gscalar(g: usize, class: usize) -> BoxedStrategy<Vec<u8>> {
    crate::gen::scalar_strategy(&rg(g).order(), class).prop_map(|k| k.to_bytes_le()).boxed()
}
pub fn any_gscalar(g: usize) -> BoxedStrategy<Vec<u8>> {
    crate::gen::any_scalar(&rg(g).order()).prop_map(|k| k.to_bytes_le()).boxed()
}

// ------------------------------------------------------------------ C20 (points)

#[derive(Clone, Debug, Hash, Serialize, Deserialize)]
pub struct SelCase {
    pub g: u8,
    pub a: PV,
    pub b: PV,
    pub same: bool,
}

pub fn sel_strategy(g: usize) -> BoxedStrategy<SelCase> {
    (any_pv(g), any_pv(g), prop::bool::weighted(0.25)).prop_map(move |(a, b, same)| SelCase { g: g as u8, a, b, same }).boxed()
}

fn check_sel_g<G: Grp>(c: &SelCase) -> Outcome {
    let mut acc = Acc::new();
    let g = G::G;
    let r = rg(g);
    let name = GROUP_NAMES[g];
    let b_pv = if c.same { &c.a } else { &c.b };
    let (pa, pb): (G, G) = (build_pv(&c.a), build_pv(b_pv));
    let (ra, rb) = (ref_pv(g, &c.a), ref_pv(g, b_pv));
    let (ea, eb) = (r.encode(&ra), r.encode(&rb));
    acc.nt(c.same || !c.a.chain.is_empty() || ea == eb || r.is_neutral(&ra));
    for ctl in [0u32, 0xFFFFFFFF] {
        let exp = if ctl == 0 { &ea } else { &eb };
        let got = guard(|| { let mut x = pa; G::set_cond(&mut x, &pb, ctl); x.encode() });
        acc.check(got.as_ref().ok() == Some(exp), || format!("C20:{name}:set_cond"), || format!("set_cond({ctl:08x}) -> {:?} expected {}", got.as_ref().map(|b| hex(b)), hex(exp)));
        let got = guard(|| G::select(&pa, &pb, ctl).encode());
        acc.check(got.as_ref().ok() == Some(exp), || format!("C20:{name}:select"), || format!("select({ctl:08x}) -> {:?} expected {}", got.as_ref().map(|b| hex(b)), hex(exp)));
        // the selected / copied value must be a complete copy: every internal coordinate is exercised by using it as an operand
        // (the encoding alone does not read all of them)
        let rsel = if ctl == 0 { &ra } else { &rb };
        let exp_ops = (r.encode(&r.add(rsel, &ra)), r.encode(&r.double(rsel)), r.encode(&r.sub(&rb, rsel)), r.encode(&r.mul(&num_bigint::BigUint::from(5u32), rsel)));
        let got = guard(|| { let x = G::select(&pa, &pb, ctl); (G::add(x, pa, 0).encode(), G::double(x, 0).encode(), G::sub(pb, x, 0).encode(), G::mul_small(x, 5, 0).encode()) });
        acc.check(got.as_ref().ok() == Some(&exp_ops), || format!("C20:{name}:select_then_use"), || format!("select({ctl:08x}) used as an operand (x+a, 2x, b-x, 5x) -> {:?}", got.as_ref().map(|t| (hex(&t.0), hex(&t.1), hex(&t.2), hex(&t.3)))));
        let got = guard(|| { let mut x = pa; G::set_cond(&mut x, &pb, ctl); (G::add(x, pa, 0).encode(), G::double(x, 0).encode(), G::sub(pb, x, 0).encode(), G::mul_small(x, 5, 0).encode()) });
        acc.check(got.as_ref().ok() == Some(&exp_ops), || format!("C20:{name}:set_cond_then_use"), || format!("set_cond({ctl:08x}) used as an operand (x+a, 2x, b-x, 5x) -> {:?}", got.as_ref().map(|t| (hex(&t.0), hex(&t.1), hex(&t.2), hex(&t.3)))));
        let expn = if ctl == 0 { ea.clone() } else { r.encode(&r.neg(&ra)) };
        let got = guard(|| { let mut x = pa; G::set_condneg(&mut x, ctl); x.encode() });
        acc.check(got.as_ref().ok() == Some(&expn), || format!("C20:{name}:set_condneg"), || format!("set_condneg({ctl:08x}) -> {:?} expected {}", got.as_ref().map(|b| hex(b)), hex(&expn)));
        let rneg = if ctl == 0 { ra.clone() } else { r.neg(&ra) };
        let expu = (r.encode(&r.add(&rneg, &rb)), r.encode(&r.double(&rneg)));
        let got = guard(|| { let mut x = pa; G::set_condneg(&mut x, ctl); (G::add(x, pb, 0).encode(), G::double(x, 0).encode()) });
        acc.check(got.as_ref().ok() == Some(&expu), || format!("C20:{name}:set_condneg_then_use"), || format!("set_condneg({ctl:08x}) used as an operand -> {:?}", got.as_ref().map(|t| (hex(&t.0), hex(&t.1)))));
    }
    let eq = if ea == eb { 0xFFFFFFFFu32 } else { 0 };
    let got = guard(|| (G::equals(pa, pb), G::equals(pb, pa)));
    acc.check(got.as_ref().ok() == Some(&(eq, eq)), || format!("C20:{name}:equals"), || format!("equals -> {:?} expected {eq:08x}", got));
    let isn = if r.is_neutral(&ra) { 0xFFFFFFFFu32 } else { 0 };
    let got = guard(|| G::isneutral(pa));
    acc.check(got.as_ref().ok() == Some(&isn), || format!("C20:{name}:isneutral"), || format!("isneutral -> {:?} expected {isn:08x}", got));
    acc.done()
}

pub fn check_sel(c: &SelCase) -> Outcome {
    with_group!(c.g as usize, check_sel_g(c))
}
