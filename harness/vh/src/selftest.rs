//! Start-up cross-checks of the harness against what crrl publishes (DESIGN.md section 6):
//! constants are never trusted to the harness author alone.

use crate::fieldapi::PF;
use num_bigint::BigUint;
use num_traits::One;
use refmodel::pf;

fn field_checks<T: PF>(errs: &mut Vec<String>) {
    let q = T::modulus();
    let n = T::NAME;
    if T::PRIME && !pf::is_probable_prime(&q) {
        errs.push(format!("{n}: modulus is not prime"));
    }
    let q8 = (&q % 8u32).to_u32_digits().first().copied().unwrap_or(0);
    if T::HAS_SQRT != (q8 != 1) {
        errs.push(format!("{n}: HAS_SQRT={} but q mod 8 = {q8}", T::HAS_SQRT));
    }
    if T::enc_len() != ((q.bits() + 7) / 8) as usize {
        errs.push(format!("{n}: ENC_LEN {} != byte length of modulus", T::enc_len()));
    }
    if T::to_int(T::one()) != BigUint::one() {
        errs.push(format!("{n}: ONE does not encode to 1"));
    }
    if T::to_int(T::minus_one()) != &q - 1u32 {
        errs.push(format!("{n}: MINUS_ONE does not encode to q-1"));
    }
    if T::to_int(T::zero()) != BigUint::from(0u32) {
        errs.push(format!("{n}: ZERO does not encode to 0"));
    }
    if q.bits() as usize > 64 * T::NLIMBS || (q.bits() as usize) <= 64 * (T::NLIMBS - 1) {
        errs.push(format!("{n}: NLIMBS {} inconsistent with modulus of {} bits", T::NLIMBS, q.bits()));
    }
}

pub fn run() -> Vec<String> {
    let mut errs = Vec::new();
    macro_rules! go {
        ($t:ty) => {
            field_checks::<$t>(&mut errs);
        };
    }
    crate::for_all_pf!(go);
    // named constants
    if crrl::field::GF25519::T255_MINUS_Q != 19 || crrl::field::GF255e::T255_MINUS_Q != 18651 || crrl::field::GF255s::T255_MINUS_Q != 3957 {
        errs.push("T255_MINUS_Q constants unexpected".into());
    }
    errs.extend(crate::selftest_extra());
    errs
}
