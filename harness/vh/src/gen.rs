//! Generator vocabulary shared by the properties (DESIGN.md section 4).

use num_bigint::BigUint;
use num_traits::{One, Zero};
use proptest::prelude::*;
use refmodel::pf;
use serde::{Deserialize, Serialize};

/// serde helper: i128 as decimal string (serde_json::Value cannot hold 128-bit integers)
pub mod i128_str {
    use serde::{Deserialize, Deserializer, Serializer};
    pub fn serialize<S: Serializer>(v: &i128, s: S) -> Result<S::Ok, S::Error> {
        s.serialize_str(&v.to_string())
    }
    pub fn deserialize<'de, D: Deserializer<'de>>(d: D) -> Result<i128, D::Error> {
        let s = String::deserialize(d)?;
        s.parse::<i128>().map_err(serde::de::Error::custom)
    }
}
pub mod u128_str {
    use serde::{Deserialize, Deserializer, Serializer};
    pub fn serialize<S: Serializer>(v: &u128, s: S) -> Result<S::Ok, S::Error> {
        s.serialize_str(&v.to_string())
    }
    pub fn deserialize<'de, D: Deserializer<'de>>(d: D) -> Result<u128, D::Error> {
        let s = String::deserialize(d)?;
        s.parse::<u128>().map_err(serde::de::Error::custom)
    }
}

/// How a field element is constructed from public constructors.
#[derive(Clone, Debug, Hash, Serialize, Deserialize, PartialEq, Eq)]
pub enum Src {
    /// raw limb constructor; kind selects from_w64le / w64le / from_w64be / w64be
    Limbs { l: Vec<u64>, kind: u8 },
    /// from_{i32,u32,i64,u64,i128,u128} (k = 0..5); the value is truncated to the target type
    Int {
        #[serde(with = "crate::gen::i128_str")]
        v: i128,
        k: u8,
    },
    /// decode_reduce of arbitrary bytes
    Red { b: Vec<u8> },
}

/// A field value: a source followed by a short chain of operations with other
/// sources (the only way to reach non-canonical internal representations of the
/// types whose constructors normalise).
#[derive(Clone, Debug, Hash, Serialize, Deserialize, PartialEq, Eq)]
pub struct FV {
    pub src: Src,
    pub chain: Vec<(u8, Src)>,
}

impl FV {
    pub fn limbs(l: Vec<u64>) -> FV {
        FV { src: Src::Limbs { l, kind: 0 }, chain: vec![] }
    }
}

pub fn int_of_src(s: &Src, q: &BigUint) -> BigUint {
    match s {
        Src::Limbs { l, .. } => pf::from_limbs_le(l) % q,
        Src::Int { v, k } => match k % 6 {
            0 => pf::from_i128(*v as i32 as i128, q),
            1 => BigUint::from(*v as u32) % q,
            2 => pf::from_i128(*v as i64 as i128, q),
            3 => BigUint::from(*v as u64) % q,
            4 => pf::from_i128(*v, q),
            _ => BigUint::from(*v as u128) % q,
        },
        Src::Red { b } => pf::from_le(b) % q,
    }
}

pub const NCHAIN_OPS: u8 = 11;

/// small multiplier that chain op 6 derives from its operand (the low 32 bits of its integer value, or one of the extreme
/// multipliers; 16 bits for GFsecp256k1, whose mul_small takes a u16-sized value)
pub fn chain_small_mult(y: &BigUint, q: &BigUint) -> u32 {
    let lo = (y & BigUint::from(0xFFFF_FFFFu32)).to_u32_digits().first().copied().unwrap_or(0);
    let c = match lo % 4 { 0 => 0xFFFF_FFFF, 1 => 0xFFFF_FFFF - (lo >> 8) % 16, _ => lo };
    let secp: BigUint = (BigUint::one() << 256usize) - (BigUint::one() << 32usize) - 977u32;
    if *q == secp { c & 0xFFFF } else { c }
}

/// reference value of a chain step
pub fn chain_step_int(x: &BigUint, op: u8, y: &BigUint, q: &BigUint) -> BigUint {
    match op % NCHAIN_OPS {
        0 => pf::add(x, y, q),
        1 => pf::sub(x, y, q),
        2 => pf::mul(x, y, q),
        3 => pf::neg(x, q),
        4 => pf::add(x, x, q),
        5 => pf::sub(y, x, q),
        // unary operations that leave other internal limb ranges than + - * do
        6 => pf::mul(x, &BigUint::from(chain_small_mult(y, q)), q),
        7 => pf::mul(x, &BigUint::from(2u32 << (chain_small_mult(y, q) % 5)), q),
        8 => pf::mul(x, x, q),
        9 => pf::half(x, q),
        _ => pf::mul(x, &BigUint::from(3u32), q),
    }
}

pub fn int_of_fv(v: &FV, q: &BigUint) -> BigUint {
    let mut x = int_of_src(&v.src, q);
    for (op, s) in &v.chain {
        let y = int_of_src(s, q);
        x = chain_step_int(&x, *op, &y, q);
    }
    x
}

/// true when the construction may leave a non-canonical internal representation or is a boundary value
pub fn src_is_raw_big(s: &Src, q: &BigUint) -> bool {
    match s {
        Src::Limbs { l, .. } => &pf::from_limbs_le(l) >= q,
        Src::Int { v, .. } => *v < 0,
        Src::Red { b } => &pf::from_le(b) >= q,
    }
}

pub fn limbs_of(x: &BigUint, n: usize) -> Vec<u64> {
    let m = BigUint::one() << (64 * n);
    pf::to_limbs_le(&(x % &m), n)
}

/// Limb-pattern strategy for a field with modulus q and an n-limb raw constructor.
/// `class` selects the structured family.
pub const LIMB_CLASSES: &[&str] = &[
    "uniform_lt_q",
    "uniform_raw",
    "boundary_set",
    "limb_patterns",
    "pow2_pm",
    "q_minus_pow2",
    "low_zero",
    "share_top_bits",
    "small",
];

pub fn limbs_strategy(q: &BigUint, n: usize, class: usize, mq_hint: u64) -> BoxedStrategy<Vec<u64>> {
    let q = q.clone();
    let bits = 64 * n;
    let full = BigUint::one() << bits;
    match LIMB_CLASSES[class % LIMB_CLASSES.len()] {
        "uniform_lt_q" => prop::collection::vec(any::<u64>(), n + 1)
            .prop_map(move |v| {
                let x = pf::from_limbs_le(&v) % &q;
                limbs_of(&x, n)
            })
            .boxed(),
        "uniform_raw" => prop::collection::vec(any::<u64>(), n).boxed(),
        "boundary_set" => {
            // {0,1,2,q-1,q-2,q,q+1,2q-1,2q,2q+1,kq +- small, 2^(bits-1) +- 1, 2^bits - 1, ...} intersect [0, 2^bits)
            let mut set: Vec<BigUint> = Vec::new();
            let one = BigUint::one();
            for d in 0u32..3 {
                set.push(BigUint::from(d));
                set.push(&q - 1u32 - d);
                set.push(&q + d);
                set.push(&q * 2u32 + d);
                set.push(&q * 2u32 - 1u32 - d);
                set.push(&q * 3u32 + d);
                set.push(&q * 4u32 - 1u32 - d);
                set.push(&full - 1u32 - d);
                set.push((&one << (bits - 1)) + d);
                set.push((&one << (bits - 1)) - 1u32 - d);
                // largest multiple of q below 2^bits, +- d
                let k = &full / &q;
                set.push(&k * &q + d);
                set.push(&k * &q - 1u32 - d);
                set.push((&q + 1u32) / 2u32 + d);
                set.push((&q - 1u32) / 2u32 - d);
            }
            let set: Vec<Vec<u64>> = set.into_iter().filter(|x| x < &full).map(|x| limbs_of(&x, n)).collect();
            prop::sample::select(set).boxed()
        }
        "limb_patterns" => {
            let mq2 = mq_hint.wrapping_mul(2);
            let pats: Vec<u64> = vec![
                0,
                1,
                mq2.wrapping_sub(1),
                mq2,
                mq2.wrapping_add(1),
                mq_hint,
                (1u64 << 63) - 1,
                1u64 << 63,
                0u64.wrapping_sub(mq2),
                0u64.wrapping_sub(mq2).wrapping_sub(1),
                0u64.wrapping_sub(mq_hint),
                u64::MAX,
                u64::MAX - 1,
                0xFFFFFFFF,
                0xFFFFFFFF00000000,
                (1u64 << 51) - 1,
                1u64 << 51,
                (1u64 << 32) - 1,
            ];
            prop::collection::vec(
                prop_oneof![4 => prop::sample::select(pats), 1 => any::<u64>()],
                n,
            )
            .boxed()
        }
        "pow2_pm" => (0..bits, -2i32..=2)
            .prop_map(move |(k, d)| {
                let x = BigUint::one() << k;
                let x = if d >= 0 { x + (d as u32) } else if x >= BigUint::from((-d) as u32) { x - ((-d) as u32) } else { x };
                limbs_of(&x, n)
            })
            .boxed(),
        "q_minus_pow2" => (0..bits, 0u32..3, any::<bool>())
            .prop_map(move |(k, d, twice)| {
                let base = if twice { &q * 2u32 } else { q.clone() };
                let p = BigUint::one() << k;
                let x = if base > &p + d { &base - &p - d } else { base.clone() };
                limbs_of(&x, n)
            })
            .boxed(),
        "low_zero" => (prop::collection::vec(any::<u64>(), n), prop::sample::select(vec![51usize, 64, 102, 128, 153, 168, 192, 204]), any::<bool>())
            .prop_map(move |(v, z, odd)| {
                let z = z.min(bits - 2);
                let mut x = pf::from_limbs_le(&v) >> z;
                if odd {
                    x |= BigUint::one();
                }
                let x = (x << z) % (BigUint::one() << bits);
                limbs_of(&x, n)
            })
            .boxed(),
        "share_top_bits" => (prop::collection::vec(any::<u64>(), n), 8usize..250)
            .prop_map(move |(v, t)| {
                let qb = q.bits() as usize;
                let t = t.min(qb - 1);
                let low = qb - t;
                let mask = (BigUint::one() << low) - 1u32;
                let x = ((&q >> low) << low) | (pf::from_limbs_le(&v) & mask);
                limbs_of(&x, n)
            })
            .boxed(),
        _ => (0u64..70000, any::<bool>())
            .prop_map(move |(v, negq)| {
                let x = if negq { &q - v } else { BigUint::from(v) };
                limbs_of(&x, n)
            })
            .boxed(),
    }
}

pub fn src_strategy(q: &BigUint, n: usize, class: usize, mq_hint: u64) -> BoxedStrategy<Src> {
    (limbs_strategy(q, n, class, mq_hint), 0u8..4).prop_map(|(l, kind)| Src::Limbs { l, kind }).boxed()
}

pub fn any_src(q: &BigUint, n: usize, mq_hint: u64) -> BoxedStrategy<Src> {
    let q2 = q.clone();
    let enc = ((q.bits() + 7) / 8) as usize;
    prop_oneof![
        6 => (0..LIMB_CLASSES.len()).prop_flat_map(move |c| src_strategy(&q2, n, c, mq_hint)),
        1 => (int_strategy(), 0u8..6).prop_map(|(v, k)| Src::Int { v, k }),
        1 => bytes_len_strategy(enc).prop_map(|b| Src::Red { b }),
    ]
    .boxed()
}

pub fn int_strategy() -> BoxedStrategy<i128> {
    prop_oneof![
        2 => any::<i128>(),
        1 => prop::sample::select(vec![0i128, 1, -1, 2, -2, i32::MAX as i128, i32::MIN as i128, u32::MAX as i128,
            i64::MAX as i128, i64::MIN as i128, u64::MAX as i128, i128::MAX, i128::MIN, (1i128 << 64), -(1i128 << 64),
            (1i128 << 31), (1i128 << 32), (1i128 << 63), 7656, 7657]),
        1 => (-70000i128..70000),
    ]
    .boxed()
}

/// byte strings of assorted lengths around a nominal length L
pub fn bytes_len_strategy(l: usize) -> BoxedStrategy<Vec<u8>> {
    let lens = vec![0usize, 1, l.saturating_sub(1), l, l + 1, 2 * l - 1, 2 * l, 2 * l + 1, 3 * l, 4 * l + 3];
    prop_oneof![
        3 => prop::sample::select(lens).prop_flat_map(|n| prop::collection::vec(any::<u8>(), n)),
        1 => (0usize..(4 * l + 4)).prop_flat_map(|n| prop::collection::vec(any::<u8>(), n)),
        1 => prop::sample::select(vec![0usize, 1, l, 2*l, 3*l+1]).prop_flat_map(|n| prop::collection::vec(prop::sample::select(vec![0u8, 0xFF, 0x80, 0x7F, 1]), n)),
    ]
    .boxed()
}

/// Field value of a given limb class, optionally followed by a chain.
pub fn fv_strategy(q: &BigUint, n: usize, class: usize, mq_hint: u64, chain: bool) -> BoxedStrategy<FV> {
    let base = src_strategy(q, n, class, mq_hint);
    if !chain {
        return base.prop_map(|src| FV { src, chain: vec![] }).boxed();
    }
    let other = any_src(q, n, mq_hint);
    (base, prop::collection::vec((0u8..NCHAIN_OPS, other), 1..4)).prop_map(|(src, chain)| FV { src, chain }).boxed()
}

/// any field value (mixture over all classes, 1/3 with a chain)
pub fn any_fv(q: &BigUint, n: usize, mq_hint: u64) -> BoxedStrategy<FV> {
    let q2 = q.clone();
    let q3 = q.clone();
    prop_oneof![
        2 => any_src(&q2, n, mq_hint).prop_map(|src| FV { src, chain: vec![] }),
        1 => (any_src(&q3, n, mq_hint), prop::collection::vec((0u8..NCHAIN_OPS, any_src(&q3, n, mq_hint)), 1..4))
                .prop_map(|(src, chain)| FV { src, chain }),
    ]
    .boxed()
}

pub fn is_zero(x: &BigUint) -> bool {
    x.is_zero()
}

// ---------------------------------------------------------------- scalars

/// Structured scalar classes (DESIGN.md section 4, `Scalar(n)`), as integers in [0, n).
pub const SCALAR_CLASSES: &[&str] = &["uniform", "edge", "pow2", "fraction_round", "fraction_ratio", "digits5", "small", "fraction_lowzero", "endo_round"];

pub fn scalar_strategy(n: &BigUint, class: usize) -> BoxedStrategy<BigUint> {
    let n = n.clone();
    let nbytes = ((n.bits() + 7) / 8) as usize;
    match SCALAR_CLASSES[class % SCALAR_CLASSES.len()] {
        "uniform" => prop::collection::vec(any::<u8>(), nbytes + 8).prop_map(move |b| pf::from_le(&b) % &n).boxed(),
        "edge" => {
            let mut v = vec![];
            for d in 0u32..4 {
                v.push(BigUint::from(d));
                v.push(&n - 1u32 - d);
                v.push((&n + 1u32) / 2u32 + d);
                v.push((&n - 1u32) / 2u32 - d);
                v.push((&n / 3u32) + d);
            }
            prop::sample::select(v).boxed()
        }
        "pow2" => (0..n.bits(), -1i32..=1, any::<bool>())
            .prop_map(move |(k, d, negate)| {
                let x = (BigUint::one() << k) % &n;
                let x = match d {
                    1 => pf::add(&x, &BigUint::one(), &n),
                    -1 => pf::sub(&x, &BigUint::one(), &n),
                    _ => x,
                };
                if negate { pf::neg(&x, &n) } else { x }
            })
            .boxed(),
        "fraction_round" => (0u64..131, prop::collection::vec(any::<u8>(), 17), prop::collection::vec(any::<u8>(), 17), 0u64..131)
            .prop_map(move |(bb, braw, jraw, jb)| {
                // k = round(j*n/b) with |b| = bb bits, |j| = jb bits (j < b)
                let b = sized(&braw, bb.max(1));
                let j = sized(&jraw, jb.min(bb)) % &b;
                ((&j * &n * 2u32 + &b) / (&b * 2u32)) % &n
            })
            .boxed(),
        "fraction_ratio" => (0u64..131, 0u64..131, prop::collection::vec(any::<u8>(), 17), prop::collection::vec(any::<u8>(), 17), any::<bool>())
            .prop_map(move |(ab, bb, araw, braw, negate)| {
                let a = sized(&araw, ab);
                let mut b = sized(&braw, bb.max(1));
                if (&b % &n).is_zero() {
                    b = BigUint::one();
                }
                let binv = pf::inv_euclid(&b, &n).unwrap_or_else(BigUint::one);
                let x = (a * binv) % &n;
                if negate { pf::neg(&x, &n) } else { x }
            })
            .boxed(),
        "fraction_lowzero" => {
            // k = +-(m * 2^z) / b with a short odd denominator: the reduced fraction (c0, c1) that the internal splits
            // recover has whole low bytes / words of c0 (or c1) equal to zero, which exercises their sign and carry handling
            let half = n.bits() / 2;
            (prop::collection::vec(any::<u8>(), 40), prop::collection::vec(any::<u8>(), 40), prop::sample::select(vec![8u64, 16, 24, 32, 64]), 8u64..100, 1u64..100, any::<bool>(), any::<bool>(), 0u8..4, 0u64..6)
                .prop_map(move |(mraw, braw, z, mb, bb, negate, swap, pure, dj)| {
                    if pure == 0 {
                        // one coordinate of the short vector is a pure power of two around the half size (2^(half-3) .. 2^(half+2)):
                        // its two's complement has all low words zero
                        let j = (half + dj).saturating_sub(3);
                        let p2 = BigUint::one() << j;
                        let a = (sized(&braw, bb.min(half.saturating_sub(4)).max(1)) | BigUint::one()) % &n;
                        let (num, den) = if swap { (a, p2) } else { (p2, a) };
                        let x = (num % &n) * pf::inv_euclid(&(den % &n), &n).unwrap_or_else(BigUint::one) % &n;
                        return if negate { pf::neg(&x, &n) } else { x };
                    }
                    let mb = mb.min(half.saturating_sub(z + 10)).max(1);
                    let bb = bb.min(half.saturating_sub(10)).max(1);
                    let m = sized(&mraw, mb) << z;
                    let b = sized(&braw, bb) | BigUint::one();
                    let (num, den) = if swap { (b.clone(), m.clone() | BigUint::one()) } else { (m, b) };
                    let x = (num % &n) * pf::inv_euclid(&(den % &n), &n).unwrap_or_else(BigUint::one) % &n;
                    if negate { pf::neg(&x, &n) } else { x }
                })
                .boxed()
        }
        "endo_round" => {
            // k = round(t*n/e) + delta where e is a coordinate of the reduced basis of the endomorphism lattice of the curve of
            // order n (the multipliers of the rounded divisions inside split_mu / split_theta; a random 127-bit e for the other
            // orders) and the quotient t has whole low limbs equal to zero or all-ones: the borrow / carry of the final
            // +-1 correction of the quotient has to cross 32-, 64- or 96-bit limb boundaries
            let es = endo_lattice_consts(&n);
            (0usize..4, prop::collection::vec(any::<u8>(), 17), prop::sample::select(vec![32u64, 64, 64, 96]), prop::collection::vec(any::<u8>(), 17), -2i32..=2, -2i32..=2, 0u8..4)
                .prop_map(move |(ei, eraw, w, araw, eps, delta, mode)| {
                    let e = if es.is_empty() { sized(&eraw, 127) } else { es[ei % es.len()].clone() };
                    let hi = (&e >> w).max(BigUint::one());
                    let a = pf::from_le(&araw) % &hi;
                    let a = match mode { 0 => a, 1 => (&a % 4u32) + 1u32, 2 => &hi - 1u32 - (&a % 4u32).min(&hi - 1u32), _ => BigUint::one() << (a.bits() % hi.bits().max(1)) };
                    let t = a << w;
                    let t = if eps >= 0 { t + eps as u32 } else if t >= BigUint::from((-eps) as u32) { t - (-eps) as u32 } else { t };
                    let k = (&t * &n * 2u32 + &e) / (&e * 2u32);
                    let k = if delta >= 0 { k + delta as u32 } else if k >= BigUint::from((-delta) as u32) { k - (-delta) as u32 } else { k };
                    k % &n
                })
                .boxed()
        }
        "digits5" => prop::collection::vec(prop_oneof![4 => prop::sample::select(vec![0u8, 15, 16, 17, 31, 1, 30]), 1 => 0u8..32], 52)
            .prop_map(move |d| {
                let mut x = BigUint::zero();
                for (i, v) in d.iter().enumerate() {
                    x |= BigUint::from(*v) << (5 * i);
                }
                x % &n
            })
            .boxed(),
        _ => (0u64..100000, any::<bool>()).prop_map(move |(v, negate)| if negate { &n - 1u32 - v } else { BigUint::from(v) }).boxed(),
    }
}

/// integer with exactly `bits` bits (top bit forced), 0 when bits == 0
/// Absolute values of the coordinates of a reduced basis of the lattice {(a, b) : a + b*lambda = 0 mod n}, for every root
/// lambda of x^2+1 (jq255e, GLS254) or x^2+x+1 (secp256k1) modulo the three group orders that come with an efficient
/// endomorphism; empty for any other n.  Computed here (Lagrange reduction), not copied from crrl.
pub fn endo_lattice_consts(n: &BigUint) -> Vec<BigUint> {
    use crate::fieldapi::t::*;
    use crate::fieldapi::PF;
    use num_bigint::BigInt;
    use num_traits::Signed;
    static C: std::sync::OnceLock<Vec<(BigUint, Vec<BigUint>)>> = std::sync::OnceLock::new();
    let tab = C.get_or_init(|| {
        let mut out = vec![];
        for (n, cubic) in [(ScJq255e::modulus(), false), (ScGls254::modulus(), false), (ScSecp256k1::modulus(), true)] {
            let lambda = if cubic {
                let s3 = pf::sqrt_any(&(&n - 3u32), &n).expect("sqrt(-3)");
                pf::mul(&pf::sub(&s3, &BigUint::one(), &n), &pf::inv(&BigUint::from(2u32), &n), &n)
            } else {
                pf::sqrt_any(&(&n - 1u32), &n).expect("sqrt(-1)")
            };
            let mut es: Vec<BigUint> = vec![];
            for lam in [lambda.clone(), &n - &lambda - if cubic { 1u32 } else { 0u32 }] {
                // Lagrange reduction of ((n, 0), (-lam, 1))
                let (mut u, mut v) = ((BigInt::from(n.clone()), BigInt::zero()), (-BigInt::from(lam), BigInt::one()));
                let norm = |x: &(BigInt, BigInt)| &x.0 * &x.0 + &x.1 * &x.1;
                loop {
                    if norm(&u) < norm(&v) { std::mem::swap(&mut u, &mut v); }
                    let nv = norm(&v);
                    let dot = &u.0 * &v.0 + &u.1 * &v.1;
                    // q = round(dot / nv)
                    let num: BigInt = &dot * 2 + &nv;
                    let den: BigInt = &nv * 2;
                    let q: BigInt = num_integer::Integer::div_floor(&num, &den);
                    if q.is_zero() { break; }
                    u = (&u.0 - &q * &v.0, &u.1 - &q * &v.1);
                }
                for c in [u.0.abs(), u.1.abs(), v.0.abs(), v.1.abs()] {
                    let c = c.to_biguint().unwrap();
                    if !c.is_zero() && !es.contains(&c) { es.push(c); }
                }
            }
            out.push((n, es));
        }
        out
    });
    tab.iter().find(|(m, _)| m == n).map(|(_, e)| e.clone()).unwrap_or_default()
}

/// Operand for a multiplication by the small constant x: every W-bit unit (W = 64, 32 or 51, the limb widths of the
/// backends) of the raw value is ceil(j * 2^W / x) - d for a random j < x and a small d, so that unit * x lands within a few
/// multiples of x of a multiple of 2^W: the per-limb products then sit on their carry boundaries.
pub fn carry_limbs(x: u32, n: usize, js: &[u32], ds: &[u8], width: u8) -> Vec<u64> {
    let w: u64 = match width % 3 { 0 => 64, 1 => 32, _ => 51 };
    let x = x.max(2) as u128;
    let units = (64 * n as u64 + w - 1) / w;
    let mut v = BigUint::zero();
    for i in 0..units as usize {
        let j = (js[i % js.len()] as u128) % x;
        let d = (ds[i % ds.len()] % 4) as u128;
        let u = ((j << w) + x - 1) / x;
        let u = u.wrapping_sub(d) & ((1u128 << w) - 1);
        v += BigUint::from(u) << (w as usize * i);
    }
    v &= (BigUint::one() << (64 * n)) - 1u32;
    limbs_of(&v, n)
}

pub fn sized(raw: &[u8], bits: u64) -> BigUint {
    if bits == 0 {
        return BigUint::zero();
    }
    let x = pf::from_le(raw) & ((BigUint::one() << bits) - 1u32);
    x | (BigUint::one() << (bits - 1))
}

pub fn any_scalar(n: &BigUint) -> BoxedStrategy<BigUint> {
    let n = n.clone();
    (0..SCALAR_CLASSES.len()).prop_flat_map(move |c| scalar_strategy(&n, c)).boxed()
}
