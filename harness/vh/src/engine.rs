//! Generic property runner: stratified class scheduling, sharded parallel
//! execution on proptest `TestRunner`s, known-finding tolerance, shrinking,
//! replay files and evidence collection.

use proptest::strategy::{BoxedStrategy, Strategy, ValueTree};
use proptest::test_runner::{Config, RngAlgorithm, RngSeed, TestCaseError, TestError, TestRunner};
use serde::de::DeserializeOwned;
use serde::Serialize;
use serde_json::{json, Value};
use std::cell::RefCell;
use std::collections::{BTreeMap, HashSet};
use std::fmt::Debug;
use std::hash::{Hash, Hasher};
use std::panic::{catch_unwind, AssertUnwindSafe};
use std::sync::atomic::{AtomicBool, AtomicUsize, Ordering};
use std::sync::Mutex;
use std::time::Instant;

#[derive(Clone, Copy, PartialEq, Eq, Debug)]
pub enum Tier {
    Quick,
    Thorough,
}

#[derive(Clone, Debug)]
pub enum Verdict {
    Pass,
    Fail { sig: String, msg: String },
}

#[derive(Clone, Debug)]
pub struct Outcome {
    pub nontrivial: bool,
    pub tags: Vec<&'static str>,
    pub verdict: Verdict,
    /// number of oracle evaluations this case performed (>= 1)
    pub evals: u64,
}

impl Outcome {
    pub fn pass(nontrivial: bool) -> Self {
        Outcome { nontrivial, tags: Vec::new(), verdict: Verdict::Pass, evals: 1 }
    }
    pub fn fail(sig: impl Into<String>, msg: impl Into<String>) -> Self {
        Outcome {
            nontrivial: true,
            tags: Vec::new(),
            verdict: Verdict::Fail { sig: sig.into(), msg: msg.into() },
            evals: 1,
        }
    }
    pub fn tag(mut self, t: &'static str) -> Self {
        self.tags.push(t);
        self
    }
    pub fn with_evals(mut self, n: u64) -> Self {
        self.evals = n;
        self
    }
    pub fn is_fail(&self) -> bool {
        matches!(self.verdict, Verdict::Fail { .. })
    }
}

/// Small helper to accumulate a verdict inside a check function.
pub struct Acc {
    pub nontrivial: bool,
    pub tags: Vec<&'static str>,
    pub evals: u64,
    pub fail: Option<(String, String)>,
}

impl Acc {
    pub fn new() -> Self {
        Acc { nontrivial: false, tags: Vec::new(), evals: 0, fail: None }
    }
    pub fn nt(&mut self, b: bool) {
        self.nontrivial |= b;
    }
    pub fn tag(&mut self, t: &'static str) {
        if !self.tags.contains(&t) {
            self.tags.push(t);
        }
    }
    /// Record one oracle evaluation; `ok == false` records the first failure.
    pub fn check(&mut self, ok: bool, sig: impl FnOnce() -> String, msg: impl FnOnce() -> String) -> bool {
        self.evals += 1;
        if !ok && self.fail.is_none() {
            self.fail = Some((sig(), msg()));
        }
        ok
    }
    pub fn failed(&self) -> bool {
        self.fail.is_some()
    }
    pub fn done(self) -> Outcome {
        Outcome {
            nontrivial: self.nontrivial || self.fail.is_some(),
            tags: self.tags,
            evals: self.evals.max(1),
            verdict: match self.fail {
                None => Verdict::Pass,
                Some((sig, msg)) => Verdict::Fail { sig, msg },
            },
        }
    }
}

#[derive(Clone, Debug)]
pub struct ClassSpec {
    pub name: &'static str,
    pub quick: u64,
    pub thorough: u64,
}

pub fn cls(name: &'static str, quick: u64, thorough: u64) -> ClassSpec {
    ClassSpec { name, quick, thorough }
}

pub trait Property: Sync {
    type Case: Clone + Debug + Hash + Serialize + DeserializeOwned + Send + Sync + 'static;
    fn id(&self) -> &'static str;
    fn rule(&self) -> String;
    fn assumptions(&self) -> Vec<String> {
        vec!["refmodel (num-bigint reference model written from the specifications) is correct".into()]
    }
    fn classes(&self) -> Vec<ClassSpec>;
    fn strategy(&self, class: usize) -> BoxedStrategy<Self::Case>;
    fn check(&self, case: &Self::Case) -> Outcome;
    /// Deterministic, exhaustive part (table sweeps etc.): returns cases to run
    /// in addition to the generated ones, labelled with a class name.
    fn sweep(&self, _tier: Tier) -> Vec<(&'static str, Self::Case)> {
        Vec::new()
    }
    /// max shrink iterations
    fn shrink_iters(&self) -> u32 {
        2000
    }
    /// cases per job (smaller for expensive cases, so that work spreads over all threads)
    fn shard_size(&self) -> u64 {
        SHARD
    }
    /// a single case running longer than this is reported as non-termination
    fn watchdog_secs(&self) -> u64 {
        300
    }
}

pub struct RunCfg {
    pub tier: Tier,
    pub seed: u64,
    pub threads: usize,
    pub config_name: String,
    pub known: Vec<KnownFinding>,
    pub replay_dir: String,
    /// multiply all class counts by this (>0)
    pub scale: f64,
    /// only run classes whose name contains this
    pub only_class: Option<String>,
}

#[derive(Clone, Debug)]
pub struct KnownFinding {
    pub property: String,
    pub signature: String,
    pub what: String,
    pub status: String,
}

pub fn load_known(path: &str) -> Vec<KnownFinding> {
    let Ok(txt) = std::fs::read_to_string(path) else { return Vec::new() };
    let v: Value = serde_json::from_str(&txt).expect("known_findings.json is not valid JSON");
    let mut out = Vec::new();
    if let Some(a) = v.get("findings").and_then(|x| x.as_array()) {
        for f in a {
            out.push(KnownFinding {
                property: f["property"].as_str().unwrap_or("").to_string(),
                signature: f["signature"].as_str().unwrap_or("").to_string(),
                what: f["what"].as_str().unwrap_or("").to_string(),
                status: f["status"].as_str().unwrap_or("").to_string(),
            });
        }
    }
    out
}

#[derive(Default)]
struct ClassStats {
    evals: u64,
    cases: u64,
    nt: u64,
}

#[derive(Default)]
struct JobResult {
    class: usize,
    cases: u64,
    evals: u64,
    nt_cases: u64,
    nt_keys: Vec<u64>,
    tags: BTreeMap<&'static str, u64>,
    samples: Vec<Value>,
    known_hits: BTreeMap<String, u64>,
    violation: Option<Value>,
    rejected: u64,
}

thread_local! {
    static PANIC_INFO: RefCell<Option<String>> = RefCell::new(None);
}

/// idempotent variant for fuzz targets
pub fn install_quiet_panic_hook_once() {
    static ONCE: std::sync::Once = std::sync::Once::new();
    ONCE.call_once(install_quiet_panic_hook);
}

/// is this signature listed as a known (unfixed) finding? (file loaded once)
pub fn known_signature(id: &str, sig: &str) -> bool {
    static K: std::sync::OnceLock<Vec<KnownFinding>> = std::sync::OnceLock::new();
    let k = K.get_or_init(|| {
        let root = std::env::var("VERIF_ROOT").unwrap_or_else(|_| "/verif".into());
        load_known(&format!("{root}/known_findings.json"))
    });
    is_known(k, id, sig)
}

pub fn install_quiet_panic_hook() {
    std::panic::set_hook(Box::new(|info| {
        let loc = info
            .location()
            .map(|l| {
                let f = l.file();
                // keep the path relative to the crate (drop line numbers: they move with edits)
                let f = f.rsplit("/repo/").next().unwrap_or(f);
                f.to_string()
            })
            .unwrap_or_else(|| "?".into());
        let msg = if let Some(s) = info.payload().downcast_ref::<&str>() {
            s.to_string()
        } else if let Some(s) = info.payload().downcast_ref::<String>() {
            s.clone()
        } else {
            "?".into()
        };
        let mut msg: String = msg.lines().next().unwrap_or("").chars().take(120).collect();
        // normalise numbers inside messages (indices, lengths) so the signature is stable
        msg = normalise_digits(&msg);
        PANIC_INFO.with(|p| *p.borrow_mut() = Some(format!("panic@{}:'{}'", loc, msg)));
    }));
}

fn normalise_digits(s: &str) -> String {
    let mut out = String::new();
    let mut in_num = false;
    for c in s.chars() {
        if c.is_ascii_digit() {
            if !in_num {
                out.push('N');
                in_num = true;
            }
        } else {
            in_num = false;
            out.push(c);
        }
    }
    out
}

/// Run `f`, converting a panic into Err(signature-string).
pub fn guard<R>(f: impl FnOnce() -> R) -> Result<R, String> {
    PANIC_INFO.with(|p| *p.borrow_mut() = None);
    match catch_unwind(AssertUnwindSafe(f)) {
        Ok(r) => Ok(r),
        Err(_) => Err(PANIC_INFO.with(|p| p.borrow_mut().take()).unwrap_or_else(|| "panic@?".into())),
    }
}

pub fn case_key<C: Hash>(c: &C) -> u64 {
    let mut h = std::collections::hash_map::DefaultHasher::new();
    c.hash(&mut h);
    h.finish()
}

fn mix(a: u64, b: u64) -> u64 {
    let mut x = a ^ b.wrapping_mul(0x9E3779B97F4A7C15).rotate_left(17);
    x ^= x >> 33;
    x = x.wrapping_mul(0xFF51AFD7ED558CCD);
    x ^= x >> 33;
    x = x.wrapping_mul(0xC4CEB9FE1A85EC53);
    x ^= x >> 33;
    x
}

fn seed_bytes(seed: u64, prop: &str, class: usize, shard: usize) -> [u8; 32] {
    let mut h = mix(seed, 0x1234_5678);
    for b in prop.bytes() {
        h = mix(h, b as u64);
    }
    h = mix(h, class as u64);
    h = mix(h, shard as u64 + 0x1000);
    let mut out = [0u8; 32];
    for i in 0..4 {
        h = mix(h, i as u64 + 77);
        out[8 * i..8 * i + 8].copy_from_slice(&h.to_le_bytes());
    }
    out
}

type Slot<C> = Mutex<Option<(Instant, C)>>;

fn checked_slot<P: Property>(p: &P, case: &P::Case, slot: Option<&Slot<P::Case>>) -> Outcome {
    if let Some(s) = slot {
        *s.lock().unwrap() = Some((Instant::now(), case.clone()));
    }
    let o = checked(p, case);
    if let Some(s) = slot {
        *s.lock().unwrap() = None;
    }
    o
}

fn checked<P: Property>(p: &P, case: &P::Case) -> Outcome {
    match guard(|| p.check(case)) {
        Ok(o) => o,
        Err(sig) => Outcome::fail(format!("{}:{}", p.id(), sig), "panic inside check (crrl code panicked outside a guarded call, or harness bug)"),
    }
}

fn is_known(known: &[KnownFinding], id: &str, sig: &str) -> bool {
    known.iter().any(|k| k.property == id && k.status == "known" && k.signature == sig)
}

const SHARD: u64 = 2000;

pub fn run_property<P: Property>(p: &P, cfg: &RunCfg) -> Value {
    let t0 = Instant::now();
    let classes = p.classes();
    // job list
    let mut jobs: Vec<(usize, usize, u64)> = Vec::new();
    for (ci, c) in classes.iter().enumerate() {
        if let Some(f) = &cfg.only_class {
            if !c.name.contains(f.as_str()) {
                continue;
            }
        }
        let base = if cfg.tier == Tier::Quick { c.quick } else { c.thorough };
        let mut n = ((base as f64) * cfg.scale).ceil() as u64;
        if base > 0 && n == 0 {
            n = 1;
        }
        let mut shard = 0usize;
        while n > 0 {
            let k = n.min(p.shard_size().max(1));
            jobs.push((ci, shard, k));
            shard += 1;
            n -= k;
        }
    }
    // sweep cases become pseudo-jobs handled separately
    let sweep = if cfg.only_class.is_none() || cfg.only_class.as_deref() == Some("sweep") { p.sweep(cfg.tier) } else { Vec::new() };

    let next = AtomicUsize::new(0);
    let stop = AtomicBool::new(false);
    let results: Mutex<Vec<(usize, JobResult)>> = Mutex::new(Vec::new());
    let nthreads = cfg.threads.max(1);
    let slots: Vec<Slot<P::Case>> = (0..nthreads).map(|_| Mutex::new(None)).collect();
    let all_done = AtomicBool::new(false);
    let limit = std::time::Duration::from_secs(p.watchdog_secs());

    std::thread::scope(|s| {
        // watchdog: a case that does not return is a violation of the "always returns" clauses
        s.spawn(|| {
            while !all_done.load(Ordering::Relaxed) {
                std::thread::sleep(std::time::Duration::from_millis(250));
                for sl in &slots {
                    let stuck = {
                        let g = sl.lock().unwrap();
                        match &*g {
                            Some((t, c)) if t.elapsed() > limit => Some(c.clone()),
                            _ => None,
                        }
                    };
                    if let Some(c) = stuck {
                        let sig = format!("{}:no-return-within-{}s", p.id(), limit.as_secs());
                        let v = write_replay(p, cfg, "watchdog", &c, &sig, "call did not return within the watchdog limit");
                        println!("VIOLATION property={} replay={}", p.id(), v["replay"].as_str().unwrap_or("?"));
                        eprintln!("  signature: {sig}");
                        std::process::exit(1);
                    }
                }
            }
        });
        let workers: Vec<_> = (0..nthreads).map(|ti| {
            let slot = &slots[ti];
            let (next, stop, results, jobs) = (&next, &stop, &results, &jobs);
            s.spawn(move || loop {
                if stop.load(Ordering::Relaxed) {
                    break;
                }
                let j = next.fetch_add(1, Ordering::Relaxed);
                if j >= jobs.len() {
                    break;
                }
                let (ci, shard, n) = jobs[j];
                let r = run_job(p, cfg, ci, shard, n, slot);
                if r.violation.is_some() {
                    // keep going on other classes, but bound the damage
                    let mut g = results.lock().unwrap();
                    let nv = g.iter().filter(|(_, r)| r.violation.is_some()).count();
                    if nv >= 4 {
                        stop.store(true, Ordering::Relaxed);
                    }
                    g.push((j, r));
                } else {
                    results.lock().unwrap().push((j, r));
                }
            })
        }).collect();
        for w in workers {
            let _ = w.join();
        }
        // sweep phase runs below with its own scope; keep the watchdog alive only for generated jobs
        all_done.store(true, Ordering::Relaxed);
    });

    // sweep: run in parallel chunks, no shrinking (cases are already minimal by construction)
    let sweep_res: Mutex<Vec<(usize, JobResult)>> = Mutex::new(Vec::new());
    let mut sweep_class_names: Vec<&'static str> = Vec::new();
    for (n, _) in &sweep {
        if !sweep_class_names.contains(n) {
            sweep_class_names.push(n);
        }
    }
    if !sweep.is_empty() {
        let nexts = AtomicUsize::new(0);
        let chunk = 64usize;
        let nchunks = (sweep.len() + chunk - 1) / chunk;
        std::thread::scope(|s| {
            for _ in 0..nthreads {
                s.spawn(|| loop {
                    let c = nexts.fetch_add(1, Ordering::Relaxed);
                    if c >= nchunks {
                        break;
                    }
                    let lo = c * chunk;
                    let hi = (lo + chunk).min(sweep.len());
                    for i in lo..hi {
                        let (name, case) = &sweep[i];
                        let ci = classes.len() + sweep_class_names.iter().position(|x| x == name).unwrap();
                        let mut jr = JobResult { class: ci, ..Default::default() };
                        let o = checked(p, case);
                        account(&mut jr, case, &o, true);
                        if let Verdict::Fail { sig, msg } = &o.verdict {
                            if is_known(&cfg.known, p.id(), sig) {
                                *jr.known_hits.entry(sig.clone()).or_insert(0) += 1;
                            } else {
                                jr.violation = Some(write_replay(p, cfg, name, case, sig, msg));
                            }
                        }
                        sweep_res.lock().unwrap().push((i, jr));
                    }
                });
            }
        });
    }

    let mut results = results.into_inner().unwrap();
    results.sort_by_key(|(j, _)| *j);
    let mut sres = sweep_res.into_inner().unwrap();
    sres.sort_by_key(|(j, _)| *j);

    let mut all_names: Vec<&'static str> = classes.iter().map(|c| c.name).collect();
    all_names.extend(sweep_class_names.iter());
    let mut cstats: Vec<ClassStats> = all_names.iter().map(|_| ClassStats::default()).collect();
    let mut keys: HashSet<u64> = HashSet::new();
    let mut tags: BTreeMap<&'static str, u64> = BTreeMap::new();
    let mut samples: Vec<Value> = Vec::new();
    let mut per_class_samples: BTreeMap<usize, usize> = BTreeMap::new();
    let mut known_hits: BTreeMap<String, u64> = BTreeMap::new();
    let mut violations: Vec<Value> = Vec::new();
    let mut evals = 0u64;
    let mut cases = 0u64;
    let mut max_sweep_violations = 0;
    for (_, r) in results.into_iter().chain(sres.into_iter()) {
        let cs = &mut cstats[r.class];
        cs.evals += r.evals;
        cs.cases += r.cases;
        cs.nt += r.nt_cases;
        evals += r.evals;
        cases += r.cases;
        for k in r.nt_keys {
            keys.insert(k);
        }
        for (t, n) in r.tags {
            *tags.entry(t).or_insert(0) += n;
        }
        for s in r.samples {
            let e = per_class_samples.entry(r.class).or_insert(0);
            if *e < 2 && samples.len() < 40 {
                samples.push(s);
                *e += 1;
            }
        }
        for (k, n) in r.known_hits {
            *known_hits.entry(k).or_insert(0) += n;
        }
        if let Some(v) = r.violation {
            if violations.len() < 8 {
                violations.push(v);
            } else {
                max_sweep_violations += 1;
            }
        }
    }
    let _ = max_sweep_violations;
    let mut unreached: Vec<&str> = Vec::new();
    let mut cj = serde_json::Map::new();
    for (i, n) in all_names.iter().enumerate() {
        let planned = if i < classes.len() {
            if cfg.tier == Tier::Quick { classes[i].quick } else { classes[i].thorough }
        } else {
            1
        };
        let filtered = cfg.only_class.as_ref().map(|f| !n.contains(f.as_str())).unwrap_or(false);
        if planned > 0 && cstats[i].cases == 0 && !filtered && violations.is_empty() {
            unreached.push(n);
        }
        cj.insert(n.to_string(), json!({"cases": cstats[i].cases, "evaluations": cstats[i].evals, "nontrivial": cstats[i].nt}));
    }
    let known_list: Vec<Value> = known_hits
        .iter()
        .map(|(k, n)| {
            let what = cfg.known.iter().find(|f| &f.signature == k).map(|f| f.what.clone()).unwrap_or_default();
            json!({"signature": k, "count": n, "what": what})
        })
        .collect();
    json!({
        "property_id": p.id(),
        "config": cfg.config_name,
        "tier": if cfg.tier == Tier::Quick {"quick"} else {"thorough"},
        "seed": cfg.seed,
        "cases": cases,
        "evaluations": evals,
        "distinct_nontrivial": keys.len(),
        "rule": p.rule(),
        "samples": samples,
        "classes": Value::Object(cj),
        "tags": tags.iter().map(|(k, v)| (k.to_string(), json!(v))).collect::<serde_json::Map<_, _>>(),
        "known_findings_hit": known_list,
        "violations": violations,
        "unreached_classes": unreached,
        "assumptions": p.assumptions(),
        "wall_s": t0.elapsed().as_secs_f64(),
    })
}

fn account<C: Hash + Serialize>(jr: &mut JobResult, case: &C, o: &Outcome, sweep: bool) {
    jr.cases += 1;
    jr.evals += o.evals;
    for t in &o.tags {
        *jr.tags.entry(*t).or_insert(0) += 1;
    }
    if o.nontrivial {
        jr.nt_cases += 1;
        jr.nt_keys.push(case_key(case));
        let lim = if sweep { 1 } else { 2 };
        if jr.samples.len() < lim {
            jr.samples.push(json!({"class_index": jr.class, "case": serde_json::to_value(case).unwrap_or(Value::Null),
                "tags": o.tags, "verdict": if o.is_fail() {"fail"} else {"pass"}}));
        }
    }
}

fn write_replay<P: Property>(p: &P, cfg: &RunCfg, class: &str, case: &P::Case, sig: &str, msg: &str) -> Value {
    let v = json!({
        "property": p.id(),
        "config": cfg.config_name,
        "class": class,
        "signature": sig,
        "message": msg,
        "seed": cfg.seed,
        "case": serde_json::to_value(case).unwrap_or(Value::Null),
    });
    let txt = serde_json::to_string_pretty(&v).unwrap();
    let key = case_key(&(p.id(), sig, serde_json::to_string(&v["case"]).unwrap()));
    let dir = format!("{}/{}", cfg.replay_dir, p.id());
    let _ = std::fs::create_dir_all(&dir);
    let path = format!("{}/{:016x}.json", dir, key);
    let _ = std::fs::write(&path, txt);
    json!({"signature": sig, "message": msg, "replay": path, "class": class, "config": cfg.config_name})
}

fn run_job<P: Property>(p: &P, cfg: &RunCfg, ci: usize, shard: usize, n: u64, slot: &Slot<P::Case>) -> JobResult {
    let classes = p.classes();
    let mut jr = JobResult { class: ci, ..Default::default() };
    let config = Config {
        cases: n as u32,
        failure_persistence: None,
        max_shrink_iters: p.shrink_iters(),
        max_global_rejects: 65536,
        max_local_rejects: 65536,
        rng_algorithm: RngAlgorithm::ChaCha,
        rng_seed: RngSeed::Fixed(0),
        ..Config::default()
    };
    let rng = proptest::test_runner::TestRng::from_seed(RngAlgorithm::ChaCha, &seed_bytes(cfg.seed, p.id(), ci, shard));
    let mut runner = TestRunner::new_with_rng(config, rng);
    let strat = p.strategy(ci);
    let jrc = RefCell::new(&mut jr);
    let failed_sig: RefCell<Option<String>> = RefCell::new(None);
    let res = runner.run(&strat, |case| {
        let o = checked_slot(p, &case, Some(slot));
        let shrinking = failed_sig.borrow().is_some();
        match &o.verdict {
            Verdict::Pass => {
                if !shrinking {
                    account(&mut **jrc.borrow_mut(), &case, &o, false);
                }
                Ok(())
            }
            Verdict::Fail { sig, msg } => {
                if is_known(&cfg.known, p.id(), sig) {
                    if !shrinking {
                        let mut j = jrc.borrow_mut();
                        account(&mut **j, &case, &o, false);
                        *j.known_hits.entry(sig.clone()).or_insert(0) += 1;
                    }
                    return Ok(());
                }
                if shrinking {
                    if failed_sig.borrow().as_deref() == Some(sig.as_str()) {
                        Err(TestCaseError::fail(msg.clone()))
                    } else {
                        Ok(())
                    }
                } else {
                    account(&mut **jrc.borrow_mut(), &case, &o, false);
                    *failed_sig.borrow_mut() = Some(sig.clone());
                    Err(TestCaseError::fail(msg.clone()))
                }
            }
        }
    });
    drop(jrc);
    match res {
        Ok(()) => {}
        Err(TestError::Fail(_, case)) => {
            let o = checked(p, &case);
            let (sig, msg) = match o.verdict {
                Verdict::Fail { sig, msg } => (sig, msg),
                Verdict::Pass => (
                    failed_sig.borrow().clone().unwrap_or_default(),
                    "shrunk case passes on re-execution (non-deterministic check?)".to_string(),
                ),
            };
            jr.violation = Some(write_replay(p, cfg, classes[ci].name, &case, &sig, &msg));
        }
        Err(TestError::Abort(r)) => {
            jr.rejected += 1;
            eprintln!("proptest aborted in class {}: {}", classes[ci].name, r);
        }
    }
    jr
}

/// Replay a case from a JSON replay file. Returns the outcome.
pub fn replay_property<P: Property>(p: &P, v: &Value) -> Result<Outcome, String> {
    let case: P::Case = serde_json::from_value(v["case"].clone()).map_err(|e| format!("cannot decode case: {e}"))?;
    Ok(checked(p, &case))
}

/// Draw `n` values from a strategy with a fixed seed (used for corpus generation and self tests).
pub fn sample_strategy<T: Debug>(s: &BoxedStrategy<T>, seed: u64, n: usize) -> Vec<T> {
    let rng = proptest::test_runner::TestRng::from_seed(RngAlgorithm::ChaCha, &seed_bytes(seed, "sample", 0, 0));
    let mut runner = TestRunner::new_with_rng(Config::default(), rng);
    (0..n).map(|_| s.new_tree(&mut runner).unwrap().current()).collect()
}

pub fn hex(b: &[u8]) -> String {
    let mut s = String::with_capacity(2 * b.len());
    for x in b {
        s.push_str(&format!("{:02x}", x));
    }
    s
}

pub fn unhex(s: &str) -> Vec<u8> {
    let s = s.as_bytes();
    (0..s.len() / 2)
        .map(|i| {
            let h = |c: u8| match c {
                b'0'..=b'9' => c - b'0',
                b'a'..=b'f' => c - b'a' + 10,
                b'A'..=b'F' => c - b'A' + 10,
                _ => 0,
            };
            h(s[2 * i]) * 16 + h(s[2 * i + 1])
        })
        .collect()
}

/// Object-safe wrapper so that `vrun` can dispatch by property id.
pub trait DynProperty: Sync {
    fn id(&self) -> &'static str;
    fn run(&self, cfg: &RunCfg) -> Value;
    fn replay(&self, v: &Value) -> Result<Outcome, String>;
}

impl<P: Property> DynProperty for P {
    fn id(&self) -> &'static str {
        Property::id(self)
    }
    fn run(&self, cfg: &RunCfg) -> Value {
        run_property(self, cfg)
    }
    fn replay(&self, v: &Value) -> Result<Outcome, String> {
        replay_property(self, v)
    }
}
