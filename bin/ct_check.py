#!/usr/bin/env python3
"""C02: fuzzing with a taint monitor.  `vexec ct` marks the secret inputs of every constant-time entry point
as undefined (valgrind client request) and runs it; valgrind memcheck reports every conditional jump and every
address computed from tainted data.  Events are attributed to the innermost crrl frames; documented
declassifications (ct_policy.json) are allowed, recorded compiler-introduced findings (known_findings.json)
are reported as KNOWN-FINDING, anything else is a VIOLATION.
usage: ct_check.py <quick|thorough> [--seed N] [--configs a,b] [--shapes K]   |   ct_check.py --replay <file>"""
import json, os, re, subprocess, sys, time, concurrent.futures as cf
import xml.etree.ElementTree as ET
import importlib.machinery, importlib.util
_l = importlib.machinery.SourceFileLoader("check", os.path.join(os.path.dirname(os.path.abspath(__file__)), "check"))
_s = importlib.util.spec_from_loader("check", _l); chk = importlib.util.module_from_spec(_s); _l.exec_module(chk)
ROOT, H = chk.ROOT, chk.H
PID = "C02"
PARTS = 8
CONTROL_TOKENS = re.compile(r"\b(if|else|match|while|for|loop|return|break|continue|unwrap|expect|assert\w*|panic)\b|&&|\|\||\?|=>")
COMPARISONS = re.compile(r"==|!=|<=|>=|(?<![<\-])<(?![<=])|(?<![\->])>(?![>=])")
CLOSURE = re.compile(r"\|\s*&?\s*(mut\s+)?[A-Za-z_]\w*\s*(,\s*&?\s*[A-Za-z_]\w*\s*)*\|")
CALLS = re.compile(r"([A-Za-z_]\w*)\s*\(")
BRANCH_FREE_CALLS = re.compile(r"^(wrapping_\w+|iszero|sgnw|zeta|lookup\w*|_mm\w+|set_cond|select|cswap|set_condneg|condneg|from_u32|from_u64|u\d+|i\d+)$")

def straight_line(text):
    """True when the source line can only be a masked, branch-free computation: no control-flow token, no comparison, no closure,
    and no call other than the wrapping / masking / table-scan helpers."""
    if text == "?" or CONTROL_TOKENS.search(text) or COMPARISONS.search(text) or CLOSURE.search(text):
        return False
    return all(BRANCH_FREE_CALLS.match(c) for c in CALLS.findall(text))

def strip_generics(fn):
    prev = None
    while prev != fn:
        prev = fn
        fn = re.sub(r"<[^<>]*>", "", fn)
    return fn.replace("crrl::", "").strip()

_SRC = {}
def source_line(path, ln):
    if path not in _SRC:
        try:
            _SRC[path] = open(path, errors="replace").read().splitlines()
        except OSError:
            _SRC[path] = []
    l = _SRC[path]
    t = l[ln - 1] if 0 < ln <= len(l) else "?"
    return re.sub(r"\s+", " ", t.split("//")[0]).strip()[:90]

def key_of(sig):
    """signature without the caller part: C02:<cfg>:<kind>:<fn@file> [<source line>]"""
    return sig.split(" <- ")[0]

def run_part(exe, cfg, seed, shapes, part, parts, only=None, shape0=0):
    work = os.path.join(ROOT, "work", PID)
    os.makedirs(work, exist_ok=True)
    xml = os.path.join(work, f"{cfg}-{seed}-{part}-{only or 'all'}-{shape0}.xml")
    cmd = ["valgrind", "--tool=memcheck", "--xml=yes", f"--xml-file={xml}", "--read-inline-info=yes", "--expensive-definedness-checks=yes",
           "--error-limit=no", "--num-callers=40", "--undef-value-errors=yes", "--leak-check=no", exe, "ct", "--seed", str(seed), "--shapes", str(shapes),
           "--part", str(part), "--parts", str(parts), "--shape0", str(shape0)]
    if only:
        cmd += ["--only", only]
    p = subprocess.run(cmd, stdout=subprocess.PIPE, stderr=subprocess.PIPE, text=True)
    if p.returncode != 0:
        raise SystemExit(f"valgrind/vexec failed in {cfg} part {part}: rc={p.returncode}\n{p.stderr[-2000:]}")
    cases = [l for l in p.stdout.splitlines() if l.startswith("case ")]
    if "valgrind=true" not in p.stdout:
        raise SystemExit("vexec did not detect valgrind")
    events = []
    for e in ET.parse(xml).getroot().iter("error"):
        kind = e.find("kind").text
        frames = []
        for f in e.find("stack").iter("frame"):
            fn = f.find("fn").text if f.find("fn") is not None else "?"
            d = f.find("dir").text if f.find("dir") is not None else ""
            fi = f.find("file").text if f.find("file") is not None else ""
            ln = int(f.find("line").text) if f.find("line") is not None else 0
            frames.append((fn, d, fi, ln))
        crrl = []
        text = None
        for fn, d, fi, ln in frames:
            full = os.path.join(d, fi)
            if full.startswith("/repo/src/"):
                # inlined frames without a name are attributed to their source file
                rel = full[len("/repo/src/"):]
                crrl.append((strip_generics(fn).split("::")[-1] if fn != "UnknownInlinedFun" else "?") + "@" + rel)
                if text is None:
                    text = source_line(full, ln)
        frames = [(fn, d, fi) for fn, d, fi, ln in frames]
        entry = next((fn.split("ct_entry_")[-1] for fn, d, fi in frames if "ct_entry_" in fn), "?")
        if crrl:
            # the site is the innermost crrl function and the text of the source line the instruction is attributed to
            # (stable under unrelated edits and inlining changes); the caller is kept for the policy and the report only
            site = crrl[0] + " [" + text + "]" + (" <- " + crrl[1] if len(crrl) > 1 else "")
        else:
            # crrl code inlined into the driver without frame information: attributed to the entry point
            site = "harness:" + entry
        events.append((kind, site, entry))
    os.remove(xml)
    return cases, events

def main():
    a = sys.argv[1:]
    def opt(name, default=None):
        return a[a.index(name) + 1] if name in a else default
    policy = json.load(open(os.path.join(ROOT, "ct_policy.json")))["allowed"]
    try:
        known = [f for f in json.load(open(os.path.join(ROOT, "known_findings.json")))["findings"] if f["property"] == PID and f["status"] == "known"]
    except Exception:
        known = []
    if a and a[0] == "--replay":
        doc = json.load(open(a[1]))
        cfg = doc["config"]
        d = chk.build(cfg, bins=("vexec",))
        _, events = run_part(os.path.join(d, "vexec"), cfg, doc["seed"], doc["shapes"], 0, 1, only=doc["entry"], shape0=doc.get("shape0", 0))
        hit = [e for e in events if key_of(f"C02:{cfg}:{e[0]}:{e[1]}") == key_of(doc["signature"])]
        if hit:
            print(f"VIOLATION property={PID} replay={a[1]}")
            return 1
        print("replay: the recorded taint event does not occur any more")
        return 0
    tier = a[0] if a else "quick"
    seed = int(opt("--seed", os.environ.get("VERIF_SEED", "1")))
    cfgs = (opt("--configs") or ("base,avx2" if tier == "quick" else ",".join(chk.ALL))).split(",")
    shapes = int(opt("--shapes", 3 if tier == "quick" else 13))
    t0 = time.time()
    dirs = chk.build_many(cfgs, bins=("vexec",))
    jobs = [(c, part) for c in cfgs for part in range(PARTS)]
    results = {}
    with cf.ThreadPoolExecutor(max_workers=min(len(jobs), os.cpu_count() or 4)) as ex:
        futs = {ex.submit(run_part, os.path.join(dirs[c], "vexec"), c, seed, shapes, part, PARTS): (c, part) for c, part in jobs}
        for f in cf.as_completed(futs):
            results[futs[f]] = f.result()
    rc = 0
    cases_total = 0
    nontrivial = set()
    sites = {}     # signature -> {entries}
    callers = {}   # signature -> {caller frames}
    for (cfg, part), (cases, events) in sorted(results.items()):
        for l in cases:
            f = dict(x.split("=") for x in l.split()[2:])
            name = l.split()[1]
            if name.startswith("control_") and part != 0:
                continue
            cases_total += 1
            if int(f["tainted"]) > 0:
                nontrivial.add((cfg, name, f["shape"], f["out"]))
        for kind, site, entry in events:
            sig = key_of(f"C02:{cfg}:{kind}:{site}")
            sites.setdefault(sig, set()).add(entry)
            callers.setdefault(sig, set()).add(site.split(" <- ")[1] if " <- " in site else "-")
    # positive controls: both must be flagged in every configuration
    for cfg in cfgs:
        if not any(s.startswith(f"C02:{cfg}:UninitCondition:harness:control_branch") for s in sites) or not any(s.startswith(f"C02:{cfg}:UninitValue:harness:control_index") for s in sites):
            print(f"harness error: positive control not flagged by memcheck in configuration {cfg}", file=sys.stderr)
            return 2
    # secrets must influence the outputs: the same entry/shape with another seed gives another output (checked on base, natively)
    exe = os.path.join(dirs[cfgs[0]], "vexec")
    o1 = subprocess.run([exe, "ct", "--seed", str(seed), "--shapes", "1"], stdout=subprocess.PIPE, text=True).stdout.splitlines()
    o2 = subprocess.run([exe, "ct", "--seed", str(seed + 7919), "--shapes", "1"], stdout=subprocess.PIPE, text=True).stdout.splitlines()
    flowed = sum(1 for x, y in zip(o1, o2) if x.startswith("case ") and x.split()[1] == y.split()[1] and x.split()[-1] != y.split()[-1])
    allowed, knownhit, viol, unattributed = {}, {}, [], {}
    generic_known = next((k for k in known if k["signature"].endswith(":branch-free-source-line")), None)
    generic_hits = []
    for sig, entries in sorted(sites.items()):
        site = sig.split(":", 3)[3]
        if site.startswith("harness:control_"):
            continue
        if site.startswith("harness:"):
            # the instruction is attributed by the debug information to a line of the harness entry itself (crrl generic code
            # inlined into the driver and merged with it by the optimiser): it is machine code of the harness build, cannot be
            # pinned on a crrl source line and changes whenever the harness is recompiled; reported in the evidence, never a verdict
            unattributed[sig] = sorted(entries)
            continue
        fn_at = site.split(" [")[0]
        ltext = site.split(" [", 1)[1].rsplit("]", 1)[0] if " [" in site else "?"
        pol = next((p for p in policy if re.search(p["match"], fn_at) and re.search(p.get("line", ""), ltext)), None)
        if pol:
            allowed[sig] = sorted(entries)
            continue
        kf = next((k for k in known if key_of(k["signature"]) == sig), None)
        if kf:
            knownhit[sig] = kf["what"]
            continue
        # The same compiler-introduced jumps are attributed to other lines / wrappers when inlining changes (another build
        # path, an unrelated edit of the harness or of crrl).  A conditional jump whose attributed source line is straight-line
        # code (no control-flow token) cannot come from a source-level branch: it is reported under the generic known finding
        # instead of as a new violation.  Secret-dependent addresses (UninitValue) and lines with control flow are never generic.
        kind, text = sig.split(":")[2], (site.split(" [", 1)[1].rsplit("]", 1)[0] if " [" in site else "?")
        if generic_known and kind == "UninitCondition" and straight_line(text):
            knownhit[sig] = generic_known["what"] + " - site not listed individually: " + site
            generic_hits.append(sig)
            continue
        cfg = sig.split(":")[1]
        os.makedirs(os.path.join(ROOT, "replays", PID), exist_ok=True)
        path = os.path.join(ROOT, "replays", PID, re.sub(r"[^A-Za-z0-9_.-]+", "_", sig)[:150] + ".json")
        json.dump({"property": PID, "signature": sig, "config": cfg, "seed": seed, "shapes": shapes, "entry": sorted(entries)[0], "entries": sorted(entries), "callers": sorted(callers[sig])}, open(path, "w"), indent=1)
        print(f"VIOLATION property={PID} replay={path}")
        print(f"  {sig}  (entries: {', '.join(sorted(entries)[:5])})", file=sys.stderr)
        viol.append({"signature": sig, "replay": path, "entries": sorted(entries), "callers": sorted(callers[sig])})
        rc = 1
    for sig, what in sorted(knownhit.items()):
        print(f"KNOWN-FINDING: property={PID} {what} [{sig}]")
    samples = [{"case": l} for l in results[(cfgs[0], 0)][0][:6]]
    doc = {"property_id": PID, "tier": tier, "seed": seed, "level": "exploration",
           "coverage": {"evaluations": cases_total, "distinct_nontrivial": len(nontrivial),
                        "rule": "A case = (build configuration, constant-time entry point, public shape: message / context / hash / seed length class and secret value class uniform / all-zero / all-ones / small). The entry runs once with its secret inputs marked undefined under valgrind memcheck; every UninitCondition (conditional jump on tainted data) and UninitValue (tainted address) event is attributed to the innermost crrl frames. A case is non-trivial when at least one tainted byte was consumed; distinct = distinct (configuration, entry, shape, output digest). The secret is confirmed to influence the output by re-running each entry natively with another seed (" + str(flowed) + " of " + str(len([x for x in o1 if x.startswith('case ')])) + " entries changed output). Two deliberately leaky controls must be flagged in every configuration.",
                        "samples": samples, "configurations": cfgs, "entries": len(set(n for (_, n, _, _) in nontrivial)), "shapes_per_entry": shapes,
                        "taint_event_sites": len(sites), "allowed_declassifications": allowed, "known_findings_hit": knownhit, "unattributed_harness_line_events": unattributed, "sites_under_generic_known_finding": generic_hits, "violations": viol, "exhaustive": False},
           "assumptions": ["valgrind memcheck's definedness tracking is used as the taint monitor: it follows data through registers and memory at bit precision but is a dynamic analysis of the executed paths only",
                           "variable-latency instructions are out of scope of the property and of the monitor",
                           "the toolchain is the pinned rustc 1.95.0; another compiler may introduce or remove branches"],
           "wall_s": round(time.time() - t0, 2), "violations": len(viol)}
    os.makedirs(os.path.join(ROOT, "evidence"), exist_ok=True)
    json.dump(doc, open(os.path.join(ROOT, "evidence", PID + ".json"), "w"), indent=1)
    return rc

if __name__ == "__main__":
    sys.exit(main())
