#!/usr/bin/env python3
"""C18: the same seeded operation trace is executed by `vexec transcript` under every build
configuration; transcripts must be identical to the `base` configuration line by line.
usage: diff_check.py <quick|thorough> [--seed N] [--count K] [--configs a,b]   |   diff_check.py --replay <file>"""
import json, os, subprocess, sys, time, hashlib, concurrent.futures as cf
sys.path.insert(0, os.path.dirname(os.path.abspath(__file__)))
import importlib.machinery, importlib.util
_l = importlib.machinery.SourceFileLoader("check", os.path.join(os.path.dirname(os.path.abspath(__file__)), "check"))
_s = importlib.util.spec_from_loader("check", _l); chk = importlib.util.module_from_spec(_s); _l.exec_module(chk)
ROOT, H = chk.ROOT, chk.H
PID = "C18"

def known():
    try:
        return [f for f in json.load(open(os.path.join(ROOT, "known_findings.json")))["findings"] if f["property"] == PID and f["status"] == "known"]
    except Exception:
        return []

def run_transcript(exe, seed, count, threads):
    p = subprocess.run([exe, "transcript", "--seed", str(seed), "--count", str(count), "--threads", str(threads)], stdout=subprocess.PIPE, stderr=subprocess.PIPE, text=True)
    if p.returncode != 0:
        raise SystemExit(f"vexec failed: {p.stderr[-2000:]}")
    return p.stdout.splitlines()

def dump(exe, seed, count, i):
    p = subprocess.run([exe, "transcript", "--seed", str(seed), "--count", str(count), "--dump", str(i)], stdout=subprocess.PIPE, text=True)
    return json.loads(p.stdout)

def exec_file(exe, path):
    p = subprocess.run([exe, "transcript", "--op-file", path], stdout=subprocess.PIPE, stderr=subprocess.PIPE, text=True)
    if p.returncode != 0:
        raise SystemExit(f"vexec failed: {p.stderr[-2000:]}")
    return json.loads(p.stdout)["output"]

def replay_files():
    d = os.path.join(ROOT, "replays", PID)
    return sorted(os.path.join(d, f) for f in os.listdir(d) if f.endswith(".json")) if os.path.isdir(d) else []

def replay_one(path, dirs, cfgs):
    outs = {c: json.dumps(exec_file(os.path.join(dirs[c], "vexec"), path)) for c in cfgs}
    return [c for c in cfgs if outs[c] != outs["base"]]

def main():
    a = sys.argv[1:]
    def opt(name, default=None):
        return a[a.index(name) + 1] if name in a else default
    if a and a[0] == "--replay":
        doc = json.load(open(a[1]))
        cfgs = ["base"] + [c for c in doc["configs_differing"]]
        dirs = chk.build_many(cfgs, bins=("vexec",))
        if replay_one(a[1], dirs, cfgs):
            print(f"VIOLATION property={PID} replay={a[1]}")
            return 1
        print("replay: configurations agree on this operation")
        return 0
    tier = a[0] if a else "quick"
    seed = int(opt("--seed", os.environ.get("VERIF_SEED", "1")))
    count = int(opt("--count", 20000 if tier == "quick" else 400000))
    cfgs = (opt("--configs") or ("base,w32,m51,avx2" if tier == "quick" else ",".join(chk.ALL))).split(",")
    if "base" not in cfgs:
        cfgs = ["base"] + cfgs
    t0 = time.time()
    dirs = chk.build_many(cfgs, bins=("vexec",))
    threads = max(2, (os.cpu_count() or 4) // min(len(cfgs), 4))
    with cf.ThreadPoolExecutor(max_workers=min(len(cfgs), 4)) as ex:
        res = dict(zip(cfgs, ex.map(lambda c: run_transcript(os.path.join(dirs[c], "vexec"), seed, count, threads), cfgs)))
    base = res["base"]
    # replay tier: every stored operation is re-executed under the selected configurations
    replayed = 0
    rviol = []
    for f in replay_files():
        replayed += 1
        bad = replay_one(f, dirs, cfgs)
        if bad:
            print(f"VIOLATION property={PID} replay={f}")
            print(f"  stored operation differs between base and {bad}", file=sys.stderr)
            rviol.append({"signature": json.load(open(f)).get("signature"), "replay": f})
    kinds = {}
    for l in base:
        k = l.split(" ")[1]
        kinds[k] = kinds.get(k, 0) + 1
    viol = list(rviol)
    seen_sig = {v["signature"] for v in rviol}
    rc = 1 if rviol else 0
    panics = [l for l in base if " PANIC " in l]
    for c in cfgs:
        if c == "base":
            continue
        lines = res[c]
        if len(lines) != len(base):
            print(f"harness error: transcript length differs in {c}", file=sys.stderr)
            return 2
        for i, (x, y) in enumerate(zip(base, lines)):
            if x != y:
                kind = x.split(" ")[1]
                sig = f"C18:{c}:{kind}"
                if sig in seen_sig:
                    continue
                seen_sig.add(sig)
                d0 = dump(os.path.join(dirs["base"], "vexec"), seed, count, i)
                d1 = dump(os.path.join(dirs[c], "vexec"), seed, count, i)
                kf = [k for k in known() if k["signature"] == sig]
                if kf:
                    print(f"KNOWN-FINDING: property={PID} {kf[0]['what']}")
                    continue
                os.makedirs(os.path.join(ROOT, "replays", PID), exist_ok=True)
                path = os.path.join(ROOT, "replays", PID, f"{c}-{kind}-{i}.json")
                json.dump({"property": PID, "signature": sig, "seed": seed, "count": count, "index": i, "configs_differing": [c], "op": d0["op"],
                           "output_base": d0["output"], "output_other": d1["output"]}, open(path, "w"), indent=1)
                print(f"VIOLATION property={PID} replay={path}")
                print(f"  first differing operation #{i} ({kind}) between base and {c}", file=sys.stderr)
                viol.append({"signature": sig, "replay": path})
                rc = 1
    # a panic in base is a C19/C10 matter, but it also makes the comparison meaningless for that op: report as harness note
    samples = [dump(os.path.join(dirs["base"], "vexec"), seed, count, i) for i in (0, 1, 2, len(base) // 2, len(base) - 1)]
    for s in samples:
        if isinstance(s.get("output"), dict) and "Ok" in s["output"]:
            s["output"] = s["output"]["Ok"][:160] + "..."
    digest = {c: hashlib.sha256("\n".join(res[c]).encode()).hexdigest() for c in cfgs}
    doc = {"property_id": PID, "tier": tier, "seed": seed, "level": "exploration",
           "coverage": {"evaluations": len(base) * len(cfgs), "distinct_nontrivial": len(base) * (len(cfgs) - 1),
                        "rule": "One seeded trace of API-level operations (fields, binary fields, helper integers, points, decoders, EdDSA, ECDSA incl. truncated verification, Schnorr + ECDH, X25519/X448, hashes, FROST, LMS, maps) with abstract inputs (bytes / integers) is executed under every configuration; each operation's observable outputs (encodings, status words, booleans; validity predicates for results documented as one-of-several) are hashed into one transcript line. A case = one (operation, non-base configuration) pair; it is non-trivial by construction (it compares two different implementations of the same documented result). distinct = distinct (operation index, configuration).",
                        "samples": samples, "operations": len(base), "operation_kinds": kinds, "configurations": cfgs, "transcript_sha256": digest,
                        "panics_in_base": len(panics), "replayed_files": replayed, "violations": viol, "exhaustive": False},
           "assumptions": ["the base configuration is the reference for the comparison (it is itself checked against the reference model by the other properties)",
                           "configurations that cannot be compiled on this host (aarch64 / riscv64 paths, gfb254_arm64pmull) are out of reach"],
           "wall_s": round(time.time() - t0, 2), "violations": len(viol)}
    os.makedirs(os.path.join(ROOT, "evidence"), exist_ok=True)
    json.dump(doc, open(os.path.join(ROOT, "evidence", PID + ".json"), "w"), indent=1)
    return rc

if __name__ == "__main__":
    sys.exit(main())
