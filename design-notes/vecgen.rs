fn hx(b: &[u8]) -> String { b.iter().map(|x| format!("{:02x}", x)).collect() }
macro_rules! vec_group { ($m:ident, $name:expr, $seedmul:expr) => {{
    let mut st = 0x1234567u64 * $seedmul;
    let mut rnd = || { st ^= st << 13; st ^= st >> 7; st ^= st << 17; st };
    for i in 0..12 {
        let mut kb = [0u8; 32]; for b in kb.iter_mut() { *b = rnd() as u8; }
        let mut lb = [0u8; 32]; for b in lb.iter_mut() { *b = rnd() as u8; }
        if i == 0 { kb = [0u8; 32]; } if i == 1 { lb = [0u8; 32]; lb[0] = 1; }
        let k = crrl::$m::Scalar::decode_reduce(&kb);
        let l = crrl::$m::Scalar::decode_reduce(&lb);
        let p = crrl::$m::Point::mulgen(&k);
        let q = crrl::$m::Point::mulgen(&l);
        println!("{} k={} l={} P={} Q={} PpQ={} PmQ={} P2={} lP={}", $name, hx(&k.encode()), hx(&l.encode()),
            hx(&p.encode()), hx(&q.encode()), hx(&(p + q).encode()), hx(&(p - q).encode()), hx(&p.double().encode()), hx(&(p * l).encode()));
    }
}}}
fn main() {
    vec_group!(jq255e, "jq255e", 3);
    vec_group!(jq255s, "jq255s", 5);
    vec_group!(gls254, "gls254", 7);
    vec_group!(ristretto255, "ristretto255", 11);
    // decaf448 scalars are 56 bytes
    {
        let mut st = 0x777u64; let mut rnd = || { st ^= st << 13; st ^= st >> 7; st ^= st << 17; st };
        for _ in 0..6 {
            let mut kb = [0u8; 56]; for b in kb.iter_mut() { *b = rnd() as u8; }
            let mut lb = [0u8; 56]; for b in lb.iter_mut() { *b = rnd() as u8; }
            let k = crrl::decaf448::Scalar::decode_reduce(&kb); let l = crrl::decaf448::Scalar::decode_reduce(&lb);
            let p = crrl::decaf448::Point::mulgen(&k); let q = crrl::decaf448::Point::mulgen(&l);
            println!("decaf448 k={} l={} P={} Q={} PpQ={} PmQ={} P2={} lP={}", hx(&k.encode()), hx(&l.encode()), hx(&p.encode()), hx(&q.encode()), hx(&(p + q).encode()), hx(&(p - q).encode()), hx(&p.double().encode()), hx(&(p * l).encode()));
        }
    }
    // decode acceptance vectors: random 32-byte strings for jq255e/jq255s/gls254/ristretto
    let mut st = 0xabcdefu64; let mut rnd = || { st ^= st << 13; st ^= st >> 7; st ^= st << 17; st };
    for _ in 0..40 {
        let mut b = [0u8; 32]; for x in b.iter_mut() { *x = rnd() as u8; } b[31] &= 0x7F; b[15] &= 0x7F;
        println!("dec b={} jq255e={} jq255s={} gls254={} ristretto255={}", hx(&b),
            crrl::jq255e::Point::decode(&b).is_some() as u8, crrl::jq255s::Point::decode(&b).is_some() as u8,
            crrl::gls254::Point::decode(&b).is_some() as u8, crrl::ristretto255::Point::decode(&b).is_some() as u8);
    }
    println!("base jq255e={} jq255s={} gls254={} ristretto255={} decaf448={}", hx(&crrl::jq255e::Point::BASE.encode()), hx(&crrl::jq255s::Point::BASE.encode()), hx(&crrl::gls254::Point::BASE.encode()), hx(&crrl::ristretto255::Point::BASE.encode()), hx(&crrl::decaf448::Point::BASE.encode()));
}
