#!/usr/bin/env python3
"""Design-phase prototype (NOT part of the framework): checks that the
reference-model formulas planned in DESIGN.md section 3 for the less common
groups (jq255e, jq255s, GLS254, ristretto255, decaf448) reproduce crrl's
encodings on vectors printed by a throw-away Rust program.  The Rust refmodel
crate will re-implement exactly these formulas on num-bigint; this file stays
as the "third opinion" calculator mentioned in DESIGN.md section 6.

usage: ref_proto.py vectors.txt
"""
import sys

# ---------------------------------------------------------------- prime fields
def inv(a, p): return pow(a, p - 2, p)
def legendre(a, p):
    a %= p
    if a == 0: return 0
    return 1 if pow(a, (p - 1) // 2, p) == 1 else -1
def sqrt_mod(a, p):
    """Any square root (Tonelli-Shanks), or None."""
    a %= p
    if a == 0: return 0
    if legendre(a, p) != 1: return None
    if p % 4 == 3: return pow(a, (p + 1) // 4, p)
    q, s = p - 1, 0
    while q % 2 == 0: q //= 2; s += 1
    z = 2
    while legendre(z, p) != -1: z += 1
    m, c, t, r = s, pow(z, q, p), pow(a, q, p), pow(a, (q + 1) // 2, p)
    while t != 1:
        i, t2 = 0, t
        while t2 != 1: t2 = t2 * t2 % p; i += 1
        b = pow(c, 1 << (m - i - 1), p)
        m, c, t, r = i, b * b % p, t * b * b % p, r * b % p
    return r
def le(b): return int.from_bytes(b, 'little')
def tole(x, n): return x.to_bytes(n, 'little')

# ------------------------------------------------- double-odd curves (jq255e/s)
class DoubleOdd:
    """y^2 = x*(x^2 + a*x + b) over GF(p); group elements are {P, P+N}, N=(0,0).
    A curve point is 'inf', or (x, y).  (e,u) <-> (x,y):
        u = x/y, e = (x^2-b)/(x^2+a*x+b);  x = 2*b*u^2/(1 - e - a*u^2), y = x/u.
    Representatives (e,u) and (-e,-u) are the same group element."""
    def __init__(s, p, a, b, r): s.p, s.a, s.b, s.r = p, a % p, b % p, r
    def add(s, P, Q):          # plain Weierstrass chord-and-tangent, a2 = a, a4 = b
        p = s.p
        if P == 'inf': return Q
        if Q == 'inf': return P
        (x1, y1), (x2, y2) = P, Q
        if x1 == x2:
            if (y1 + y2) % p == 0: return 'inf'
            lam = (3 * x1 * x1 + 2 * s.a * x1 + s.b) * inv(2 * y1, p) % p
        else:
            lam = (y2 - y1) * inv(x2 - x1, p) % p
        x3 = (lam * lam - s.a - x1 - x2) % p
        return (x3, (lam * (x1 - x3) - y1) % p)
    def neg(s, P): return P if P == 'inf' else (P[0], (-P[1]) % s.p)
    def mul(s, k, P):
        R = 'inf'
        for bit in bin(k)[2:]:
            R = s.add(R, R)
            if bit == '1': R = s.add(R, P)
        return R
    def decode(s, bs):
        """32 bytes -> a curve point representing the element, or None."""
        p = s.p
        if len(bs) != 32: return None
        u = le(bs)
        if u >= p: return None
        ee = ((s.a * s.a - 4 * s.b) * pow(u, 4, p) - 2 * s.a * u * u + 1) % p
        e = sqrt_mod(ee, p)
        if e is None: return None
        if e & 1: e = p - e                       # non-negative root (lsb 0)
        if u == 0: return (0, 0)                  # neutral N  (e = -1 rep)
        x = 2 * s.b * u * u * inv(1 - e - s.a * u * u, p) % p
        return (x, x * inv(u, p) % p)
    def encode(s, P):
        p = s.p
        if P == 'inf' or P == (0, 0): return tole(0, 32)
        x, y = P
        u = x * inv(y, p) % p
        e = (x * x - s.b) * inv(x * x + s.a * x + s.b, p) % p
        if e & 1: u = (-u) % p
        return tole(u, 32)
    # group ops on representatives: the element of P is {P, P+N}; sums of
    # representatives represent sums of elements (N has order 2).
    def gadd(s, P, Q): return s.add(P, Q)

P255E = 2**255 - 18651
P255S = 2**255 - 3957
JQ255E = DoubleOdd(P255E, 0, -2, 2**254 - 131528281291764213006042413802501683931)
JQ255S = DoubleOdd(P255S, -1, inv(2, P255S), None)

# ------------------------------------------------------------------- GLS254
M127 = (1 << 127) | (1 << 63) | 1
def b127_mul(a, b):
    r = 0
    while b:
        if b & 1: r ^= a
        b >>= 1; a <<= 1
        if a >> 127: a ^= M127
    return r
def b127_red(a):
    for i in range(a.bit_length() - 1, 126, -1):
        if (a >> i) & 1: a ^= M127 << (i - 127)
    return a
class F254:
    """GF(2^127)[u]/(u^2+u+1); element = (x0, x1)."""
    @staticmethod
    def mul(a, b):
        a0, a1 = a; b0, b1 = b
        t = b127_mul(a1, b1)
        return (b127_mul(a0, b0) ^ t, b127_mul(a0, b1) ^ b127_mul(a1, b0) ^ t)
    @staticmethod
    def add(a, b): return (a[0] ^ b[0], a[1] ^ b[1])
    @staticmethod
    def sq(a): return F254.mul(a, a)
    @staticmethod
    def pow(a, e):
        r = (1, 0)
        for bit in bin(e)[2:]:
            r = F254.sq(r)
            if bit == '1': r = F254.mul(r, a)
        return r
    @staticmethod
    def inv(a): return F254.pow(a, (1 << 254) - 2)
    @staticmethod
    def sqrt(a): return F254.pow(a, 1 << 253)
    @staticmethod
    def trace(a):
        # Tr over GF(2): sum of a^(2^i), i = 0..253
        t, x = (0, 0), a
        for _ in range(254):
            t = F254.add(t, x); x = F254.sq(x)
        assert t in ((0, 0), (1, 0)); return t[0]
    @staticmethod
    def qsolve(a):
        """some f with f^2 + f = a (needs Tr(a) = 0); brute via half-trace-like sum
        over the degree-254 field: f = sum_{i odd? } ... use generic linear algebra-free
        method: pick random-ish t with Tr(t)=1, f = sum_{i=0}^{n-2} (sum_{j=i+1}^{n-1} t^(2^j)) a^(2^i)."""
        n = 254
        t = (0, 1)                                # Tr(u) = 1 in GF(2^254)
        assert F254.trace(t) == 1
        tp = [t]
        for _ in range(n - 1): tp.append(F254.sq(tp[-1]))
        suffix = [(0, 0)] * (n + 1)
        for j in range(n - 1, -1, -1): suffix[j] = F254.add(suffix[j + 1], tp[j])
        f, x = (0, 0), a
        for i in range(n - 1):
            f = F254.add(f, F254.mul(suffix[i + 1], x)); x = F254.sq(x)
        return f
    @staticmethod
    def dec(bs):
        if len(bs) != 32 or (bs[15] & 0x80) or (bs[31] & 0x80): return None
        return (le(bs[:16]), le(bs[16:]))
    @staticmethod
    def enc(a): return tole(a[0], 16) + tole(a[1], 16)

GLS_A = (0, 1)
GLS_B = (1 | (1 << 54), 0)
class GLS254:
    """y^2 + x*y = x^3 + a*x^2 + b*x ; elements are P+N, N=(0,0); (x,s) with
    s = y + x^2 + a*x + b; encoding w = sqrt(s/x), neutral -> 0."""
    @staticmethod
    def add(P, Q):
        F = F254
        if P == 'inf': return Q
        if Q == 'inf': return P
        (x1, y1), (x2, y2) = P, Q
        if x1 == x2:
            if F.add(y1, y2) == x1: return 'inf'            # Q = -P  (-P = (x, y+x))
            if x1 == (0, 0): return 'inf'
            lam = F.mul(F.add(F.add(F.sq(x1), GLS_B), y1), F.inv(x1))
            x3 = F.add(F.add(F.sq(lam), lam), GLS_A)
        else:
            lam = F.mul(F.add(y1, y2), F.inv(F.add(x1, x2)))
            x3 = F.add(F.add(F.add(F.add(F.sq(lam), lam), GLS_A), x1), x2)
        y3 = F.add(F.add(F.mul(lam, F.add(x1, x3)), x3), y1)
        return (x3, y3)
    @staticmethod
    def gadd(P, Q):   # representatives P+N, Q+N -> (P+Q)+N = rep(P)+rep(Q)+N
        return GLS254.add(GLS254.add(P, Q), ((0, 0), (0, 0)))
    @staticmethod
    def gneg(P):      # -(P+N) as element: (-P)+N = -(P+N) since N = -N
        return P if P == 'inf' else (P[0], F254.add(P[1], P[0]))
    @staticmethod
    def decode(bs):
        F = F254
        w = F.dec(bs)
        if w is None: return None
        if w == (0, 0): return ((0, 0), (0, 0))
        d = F.add(F.add(F.sq(w), w), GLS_A)
        e = F.mul(GLS_B, F.inv(F.sq(d)))
        if F.trace(e) != 0: return None
        f = F.qsolve(e)
        assert F.add(F.sq(f), f) == e
        x = F.mul(d, f)
        if F.trace(x) == 1: x = F.add(x, d)
        s = F.mul(x, F.sq(w))
        y = F.add(F.add(F.add(s, F.sq(x)), F.mul(GLS_A, x)), GLS_B)
        return (x, y)
    @staticmethod
    def encode(P):
        F = F254
        if P == 'inf' or P[0] == (0, 0): return F.enc((0, 0))
        x, y = P
        s = F.add(F.add(F.add(y, F.sq(x)), F.mul(GLS_A, x)), GLS_B)
        return F.enc(F.sqrt(F.mul(s, F.inv(x))))
    @staticmethod
    def mul(k, P):
        # scalar multiple of the *element*: k*(P'+N) = k*P' + N ; with rep R = P'+N,
        # P' = R+N, so element k -> k*(R+N) + N
        N = ((0, 0), (0, 0))
        Pp = GLS254.add(P, N)
        R = 'inf'
        for bit in bin(k)[2:]:
            R = GLS254.add(R, R)
            if bit == '1': R = GLS254.add(R, Pp)
        return GLS254.add(R, N)

# ------------------------------------------------------- ristretto255 (RFC 9496)
P25519 = 2**255 - 19
D25519 = (-121665 * inv(121666, P25519)) % P25519
SQRT_M1 = pow(2, (P25519 - 1) // 4, P25519)
def is_neg(x, p): return (x % p) & 1
def sqrt_ratio_m1(u, v):
    p = P25519
    r = u * pow(v, 3, p) * pow(u * pow(v, 7, p), (p - 5) // 8, p) % p
    check = v * r * r % p
    correct = check == u % p
    flipped = check == (-u) % p
    flipped_i = check == (-u * SQRT_M1) % p
    if flipped or flipped_i: r = r * SQRT_M1 % p
    if is_neg(r, p): r = p - r
    return (correct or flipped), r
class Ed:
    def __init__(s, p, a, d): s.p, s.a, s.d = p, a % p, d % p
    def add(s, P, Q):
        p = s.p; (x1, y1), (x2, y2) = P, Q
        t = s.d * x1 * x2 * y1 * y2 % p
        return ((x1 * y2 + x2 * y1) * inv(1 + t, p) % p, (y1 * y2 - s.a * x1 * x2) * inv(1 - t, p) % p)
    def mul(s, k, P):
        R = (0, 1)
        for bit in bin(k)[2:]:
            R = s.add(R, R)
            if bit == '1': R = s.add(R, P)
        return R
ED25519 = Ed(P25519, -1, D25519)
INVSQRT_A_MINUS_D = None
def r255_decode(bs):
    p = P25519
    if len(bs) != 32: return None
    s_ = le(bs)
    if s_ >= p or (s_ & 1): return None
    ss = s_ * s_ % p
    u1 = (1 - ss) % p; u2 = (1 + ss) % p; u2s = u2 * u2 % p
    v = (-(D25519 * u1 * u1) - u2s) % p
    ok, invsqrt = sqrt_ratio_m1(1, v * u2s % p)
    den_x = invsqrt * u2 % p; den_y = invsqrt * den_x * v % p
    x = 2 * s_ * den_x % p
    if is_neg(x, p): x = p - x
    y = u1 * den_y % p
    t = x * y % p
    if (not ok) or is_neg(t, p) or y == 0: return None
    return (x, y)
def r255_encode(P):
    p = P25519; x0, y0 = P; z0 = 1; t0 = x0 * y0 % p
    global INVSQRT_A_MINUS_D
    if INVSQRT_A_MINUS_D is None:
        _, INVSQRT_A_MINUS_D = sqrt_ratio_m1(1, (-1 - D25519) % p)
    u1 = (z0 + y0) * (z0 - y0) % p; u2 = x0 * y0 % p
    _, invsqrt = sqrt_ratio_m1(1, u1 * u2 * u2 % p)
    den1 = invsqrt * u1 % p; den2 = invsqrt * u2 % p
    z_inv = den1 * den2 * t0 % p
    ix0 = x0 * SQRT_M1 % p; iy0 = y0 * SQRT_M1 % p
    enchanted = den1 * INVSQRT_A_MINUS_D % p
    rotate = is_neg(t0 * z_inv, p)
    if rotate: x, y, den_inv = iy0, ix0, enchanted
    else: x, y, den_inv = x0, y0, den2
    if is_neg(x * z_inv, p): y = (-y) % p
    s_ = den_inv * (z0 - y) % p
    if is_neg(s_, p): s_ = p - s_
    return tole(s_, 32)

# -------------------------------------------------------- decaf448 (RFC 9496)
P448 = 2**448 - 2**224 - 1
D448 = (-39081) % P448
def sqrt_ratio_m1_448(u, v):
    p = P448
    r = u * pow(u * v, (p - 3) // 4, p) % p
    check = v * r * r % p
    ok = check == u % p
    if is_neg(r, p): r = p - r
    return ok, r
ED448 = Ed(P448, 1, D448)
def d448_decode(bs):
    p = P448
    if len(bs) != 56: return None
    s_ = le(bs)
    if s_ >= p or (s_ & 1): return None
    ss = s_ * s_ % p
    u1 = (1 + ss) % p
    u2 = (u1 * u1 - 4 * D448 * ss) % p
    ok, invsqrt = sqrt_ratio_m1_448(1, u2 * u1 * u1 % p)
    u3 = 2 * s_ * invsqrt * u1 % p * SQRT_MINUS_D448 % p
    if is_neg(u3, p): u3 = p - u3
    x = u3 * invsqrt * u2 % p * INVSQRT_MINUS_D448 % p
    y = (1 - ss) * invsqrt * u1 % p
    if not ok: return None
    return (x, y)
_, SQRT_MINUS_D448 = sqrt_ratio_m1_448(39081, 1)
_, INVSQRT_MINUS_D448 = sqrt_ratio_m1_448(1, 39081)
def d448_encode(P):
    p = P448; x0, y0 = P; z0 = 1; t0 = x0 * y0 % p
    u1 = (x0 + t0) * (x0 - t0) % p
    _, invsqrt = sqrt_ratio_m1_448(1, u1 * (39081 + 1) % p * x0 * x0 % p)   # a - d = 1 + 39081? (ONE_MINUS_D)
    ratio = invsqrt * u1 % p * SQRT_MINUS_D448 % p
    if is_neg(ratio, p): ratio = p - ratio
    u2 = (INVSQRT_MINUS_D448 * ratio * z0 - t0) % p
    s_ = (39082 * invsqrt * x0 * u2) % p    # ONE_MINUS_D = 39082
    if is_neg(s_, p): s_ = p - s_
    return tole(s_, 56)

# --------------------------------------------------------------------- driver
def main(path):
    ok = bad = 0
    for line in open(path):
        f = line.split()
        if not f: continue
        kv = dict(x.split('=') for x in f[1:])
        if f[0] in ('jq255e', 'jq255s', 'gls254', 'ristretto255', 'decaf448'):
            h = {k: bytes.fromhex(v) for k, v in kv.items()}
            l = le(h['l'])
            if f[0] in ('jq255e', 'jq255s'):
                C = JQ255E if f[0] == 'jq255e' else JQ255S
                P, Q = C.decode(h['P']), C.decode(h['Q'])
                got = dict(PpQ=C.encode(C.add(P, Q)), PmQ=C.encode(C.add(P, C.neg(Q))),
                           P2=C.encode(C.add(P, P)), lP=C.encode(C.mul(l, P)),
                           P=C.encode(P), Q=C.encode(Q))
            elif f[0] == 'gls254':
                G = GLS254; P, Q = G.decode(h['P']), G.decode(h['Q'])
                got = dict(PpQ=G.encode(G.gadd(P, Q)), PmQ=G.encode(G.gadd(P, G.gneg(Q))),
                           P2=G.encode(G.gadd(P, P)), lP=G.encode(G.mul(l, P)), P=G.encode(P), Q=G.encode(Q))
            elif f[0] == 'ristretto255':
                E = ED25519; P, Q = r255_decode(h['P']), r255_decode(h['Q'])
                nQ = ((-Q[0]) % P25519, Q[1])
                got = dict(PpQ=r255_encode(E.add(P, Q)), PmQ=r255_encode(E.add(P, nQ)),
                           P2=r255_encode(E.add(P, P)), lP=r255_encode(E.mul(l, P)), P=r255_encode(P), Q=r255_encode(Q))
            else:
                E = ED448; P, Q = d448_decode(h['P']), d448_decode(h['Q'])
                nQ = ((-Q[0]) % P448, Q[1])
                got = dict(PpQ=d448_encode(E.add(P, Q)), PmQ=d448_encode(E.add(P, nQ)),
                           P2=d448_encode(E.add(P, P)), lP=d448_encode(E.mul(l, P)), P=d448_encode(P), Q=d448_encode(Q))
            for k, v in got.items():
                if v == h[k]: ok += 1
                else: bad += 1; print('MISMATCH', f[0], k, v.hex(), h[k].hex())
        elif f[0] == 'dec':
            b = bytes.fromhex(kv['b'])
            exp = dict(jq255e=JQ255E.decode(b) is not None, jq255s=JQ255S.decode(b) is not None,
                       gls254=GLS254.decode(b) is not None, ristretto255=r255_decode(b) is not None)
            for k, v in exp.items():
                if int(v) == int(kv[k]): ok += 1
                else: bad += 1; print('DECODE MISMATCH', k, kv['b'], 'ref', v, 'crrl', kv[k])
    print('agree', ok, 'disagree', bad)

if __name__ == '__main__':
    main(sys.argv[1])
